#!/bin/bash
# Run every check of a tier in sequence; print one status line per property.
cd "$(dirname "$0")"
tier=${1:-quick}
rc=0
for i in $(seq -w 1 20); do
  id=C$i
  s=$(date +%s)
  out=$(./check $id --tier $tier 2>&1); r=$?
  e=$(date +%s)
  echo "$id rc=$r $((e-s))s $(echo "$out" | tail -1)"
  echo "$out" | grep -E "^VIOLATION|^  what|harness job" | head -8
  [ $r -ne 0 ] && rc=1
done
exit $rc
