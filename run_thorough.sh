#!/bin/bash
# Run the thorough tier of the given checks (default: all) in sequence; one status line each.
cd "$(dirname "$0")"
ids=${@:-$(seq -f "C%02g" 1 20)}
for id in $ids; do
  s=$(date +%s)
  out=$(timeout ${VERIF_THOROUGH_TIMEOUT:-7200} ./check $id --tier thorough 2>&1); r=$?
  e=$(date +%s)
  echo "$id rc=$r $((e-s))s $(echo "$out" | tail -1)"
  echo "$out" | grep -E "^VIOLATION|^  what|harness job" | cut -c1-600 | head -12
done
