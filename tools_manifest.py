"""Regenerate MANIFEST.json from the check modules (kept in the repository so the file stays valid)."""
import importlib, json, subprocess, sys
sys.path.insert(0, "/verif")
props = {json.loads(l)["id"]: json.loads(l) for l in open("/verif/properties.jsonl")}
TECH = {
 "C01": ("model_checking", "DIRX history BFS: explicit-state search over edit histories of the real director, states deduplicated, each compared with a from-scratch build", "4 C01"),
 "C02": ("model_checking", "DIRX schedule DFS (deviation-bounded stateless exploration of the real director) + OPX pair enumeration for rejection texts", "4 C02"),
 "C03": ("model_checking", "DIRX schedule DFS with file read/write monitor and external-write / clock-tie environment events", "4 C03"),
 "C04": ("model_checking", "DIRX history BFS: no-op restart and every source-subset edit from every successful state, reference cone", "4 C04"),
 "C05": ("fault_enumeration", "crash-point enumeration on the real database and tree: kill after every commit, step file action and cleanup removal, restart in place", "4 C05"),
 "C06": ("model_checking", "DIRX history BFS over plan edits and user actions with an interception monitor on every remove/rmdir, plus stepup clean argument menu", "4 C06"),
 "C07": ("model_checking", "DIRX history BFS over plan edits, orphan oracle against from-scratch builds, shrinking", "4 C07"),
 "C08": ("model_checking", "OPX: exhaustive ordered pairs (both arrival orders) and triples of declarations by three live creators on the real handler, ownership invariants on every commit, reference conflict matrix, api-layer spellings", "4 C08"),
 "C09": ("model_checking", "OPX: breadth-first explicit-state search with canonical state hashing over request/exit/file/kill/restart events, invariants inside every committing transaction, statement-level transition log", "4 C09"),
 "C10": ("model_checking", "DIRX schedule DFS with a dispatch monitor evaluated inside every dispatch transaction against reference definitions", "4 C10"),
 "C11": ("model_checking", "exhaustive generation of dependency graphs x target sets, real builds (schedule DFS in thorough), reference need fixed point", "4 C11"),
 "C12": ("model_checking", "DIRX schedule DFS with occupancy/hold monitor at every command start", "4 C12"),
 "C13": ("exploration", "FUNX: exhaustive enumeration of step configurations and file manipulations over a small adversarial alphabet, injectivity by stream comparison", "4 C13"),
 "C14": ("model_checking", "DIRX with the real kernel inotify read without blocking: all operation sequences up to a length, fork rebuild vs shutdown+restart, delivery moments explored", "4 C14"),
 "C15": ("model_checking", "OPX search with before/after table comparison for every rejected request, all arrival orders of concurrent request mixes, RPCX disconnect injection with the real DirectorHandler", "4 C15"),
 "C16": ("model_checking", "RPCX: exhaustive fragmentations, interleavings of deliveries and handler completions, truncation and garbage at every offset on the real server connection and clients over in-memory streams", "4 C16"),
 "C17": ("exploration", "FUNX: all patterns up to a token length x all small trees on tmpfs, reference backtracking matcher, stdlib glob, will_change vs rescan", "4 C17"),
 "C18": ("exploration", "FUNX: all labels and directory names over an adversarial alphabet through every real SQL selection site on a real Workflow database", "4 C18"),
 "C19": ("model_checking", "DIRX schedule DFS over failing/blocked/cyclic/deferring/target projects with drain injection; return code and pending summary vs reference", "4 C19"),
 "C20": ("exploration", "FUNX: all paths x working directories vs os.path.realpath, plus closed-system builds with sub-plans in nested and sibling directories", "4 C20"),
}
NOTE = {
 "C05": "process kill only (SQLite commit durability trusted); default schedules for the killed run in quick",
}
# parts added to the checks after their RULE text was written (details in DESIGN.md section 4)
MORE = {
 "C01": "; histories through a failing plan (a globbing sub-plan detached while files come and go, with one or two creator levels), an optional failing writer, a dependency moved from the script to the plan",
 "C05": "; crash point right after the schema was written; crash images with interrupted steps restarted under two schedules",
 "C08": "; recycle searches in which a static tree comes back with its recycled declarer (one and two creator levels below it); a product named like the tree",
 "C09": "; focused searches: a built file that loses its creator and is supplied or declared again (reuse), a step that completes while detached with unchanged outputs (detfin); the succeeded-outputs invariant also for detached steps",
 "C13": "; the file digest under every composition of short reads and a cancellation between any two reads; override values that spell a second assignment or the section marker",
 "C14": "; prelude builds before the watch session (a step recycled and skipped), plan edits between watch phases, matches declared static by name, a wildcard directory level, a file replaced by a directory",
 "C15": "; a cycle closed by the last output; a request of a step that died, handled between its completion and the retirement of its job",
 "C16": "; concurrent calls of 10 B to 1 MiB over a transport whose drain() yields; every subset of callers cancelled while blocked in drain(), replies in every order",
 "C11": "; target-restricted builds after every state of the histories",
 "C20": "; glob() payloads (pattern, matches, rescan from the root), call() with an arguments file and a working directory, get_info() from working directories inside and outside the root",
 "C03": "; an amendment that names a product and a file under a static tree; inputs removed under running steps",
 "C12": "; steps blocked in amend() on a tree file at capacity; a running detached step re-declared with another signature",
 "C19": "; more causes than the summary ranks exactly; a glob match on a product together with a pending step",
 "C06": "; a source whose static() is dropped while a new step still reads it",
 "C04": "; a step that completed while detached and is re-created by its repaired creator",
 "C07": "; outputs in sibling directories under an unmarked parent; a rerun that overwrites its output and fails; an optional failing writer",
 "C18": "; dependents of the clean selection with steps whose command reads like a path",
}

checks = []
for pid in sorted(props):
    level, tech, ref = TECH[pid]
    mod = importlib.import_module(f"vf.checks.{pid.lower()}")
    checks.append({
        "property_id": pid,
        "quick_cmd": f"./check {pid} --tier quick",
        "thorough_cmd": f"./check {pid} --tier thorough",
        "evidence_file": f"evidence/{pid}.json",
        "replay_cmd_template": "./check replay {path}",
        "engine": tech.split(":")[0].split(" ")[0],
        "level_claimed": {"category": level,
                          "text": "Bounded exhaustive exploration of the real implementation: " + mod.RULE[:1100] + MORE.get(pid, ""),
                          "design_ref": f"DESIGN.md section {ref}"},
        "level_note": "; ".join(getattr(mod, "ASSUMPTIONS", [])) + ("; " + NOTE[pid] if pid in NOTE else ""),
        "technique": tech,
    })
commits = subprocess.check_output(["git", "-C", "/repo", "log", "--format=%h %s", "2db050f..HEAD"]).decode().strip().split("\n")
manifest = {
 "version": 1,
 "setup_cmd": "/venv/bin/python -c \"import stepup.core, asyncinotify, sqlite3; print('ok: stepup-core from /repo, sqlite', sqlite3.sqlite_version)\"",
 "hooks": {"guard": "STEPUP_CORE_VERIF",
           "enable": "no source hooks exist: every instrument is applied from /verif at run time by rebinding module attributes of the imported package (DESIGN.md section 8); ./check exports STEPUP_CORE_VERIF=1 for symmetry only",
           "baseline_off_cmd": "cd /repo && /venv/bin/python -m pytest -ra -q -p no:cacheprovider --timeout=900 --continue-on-collection-errors",
           "source_commits": [],
           "add_only": True},
 "engines": [
   {"name": "DIRX", "path": "vf/harness.py vf/dirx.py vf/explore.py vf/hist.py", "serves_properties": ["C01","C02","C03","C04","C05","C06","C07","C10","C11","C12","C14","C19","C20"], "kind_free_text": "real director.serve() on a hand-stepped asyncio loop; stateless deviation-bounded DFS over schedules, BFS over edit histories, crash-point enumeration"},
   {"name": "OPX", "path": "vf/opx.py", "serves_properties": ["C08","C09","C15","C02"], "kind_free_text": "explicit-state BFS over online request sequences with canonical state hashing and prefix replay"},
   {"name": "RPCX", "path": "vf/checks/c16.py", "serves_properties": ["C16","C15"], "kind_free_text": "in-memory transport explorer for rpc.py"},
   {"name": "FUNX", "path": "vf/checks/c13.py vf/checks/c17.py vf/checks/c18.py vf/checks/c20.py vf/refglob.py", "serves_properties": ["C13","C17","C18","C20"], "kind_free_text": "exhaustive small-alphabet input enumeration against reference implementations"},
 ],
 "checks": checks,
 "not_applicable": [],
 "notes": "Genuine defects found are in known_findings.json (findings: still present, printed as KNOWN-FINDING; fixed: repaired by fix: commits in /repo: " + "; ".join(commits) + ").",
}
json.dump(manifest, open("/verif/MANIFEST.json", "w"), indent=1)
print(len(checks), "checks")
