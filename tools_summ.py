import json,glob,os,sys,collections
prop=sys.argv[1]; ref=sys.argv[2]
n=int(sys.argv[3]) if len(sys.argv)>3 else 400
ex=collections.defaultdict(list)
for f in glob.glob(f'/verif/replays/{prop}-*.json'):
    if os.path.getmtime(f) < os.path.getmtime(ref)-30: continue
    d=json.load(open(f))
    ex[d.get('key','?')].append(d)
for k,ds in sorted(ex.items()):
    w=ds[0].get('what',{})
    w=dict(w) if isinstance(w,dict) else {'w':w}
    w.pop('exec',None); w.pop('last_build',None)
    print(k); print('   ',json.dumps(w,default=str)[:n])
