"""Canonical observations of the workflow database and the file system."""

import json
import re

_DET = re.compile(r"\((?:file|step|st):[^)]*\)")


def graph_blocks(text):
    """Split `Workflow.format_str()` output into blocks keyed by their node key."""
    blocks = {}
    for chunk in text.split("\n\n"):
        lines = [ln for ln in chunk.split("\n") if ln.strip() != ""]
        if not lines:
            continue
        blocks[lines[0]] = tuple(lines[1:])
    return blocks


def canon_graph(text):
    """Order-independent form of the graph text: sorted (key, lines) pairs."""
    return tuple(sorted(graph_blocks(text).items()))


def attached_graph(text):
    """Only the attached nodes, without lines that name detached nodes."""
    out = []
    for key, lines in sorted(graph_blocks(text).items()):
        if key.startswith("("):
            continue
        keep = tuple(ln for ln in lines if not _is_detached_ref(ln))
        out.append((key, keep))
    return tuple(out)


def _is_detached_ref(line):
    s = line.strip()
    for role in ("creator", "source", "product", "sink"):
        if s.startswith(role):
            rest = s[len(role) :].strip()
            return rest.startswith("(")
    return False


def graph_states(text):
    """Return {key: state} for all nodes that have a state line."""
    out = {}
    for key, lines in graph_blocks(text).items():
        for ln in lines:
            s = ln.strip()
            if s.startswith("state = "):
                out[key] = s[len("state = ") :]
    return out


def diff_graphs(a, b, limit=12):
    """Human-readable difference between two canonical graphs (tuples of (key, lines))."""
    da, db = dict(a), dict(b)
    out = []
    for key in sorted(set(da) | set(db)):
        if da.get(key) != db.get(key):
            out.append({"node": key, "a": da.get(key), "b": db.get(key)})
            if len(out) >= limit:
                break
    return out


# ------------------------------------------------------------------------------------------
# Raw table dump
# ------------------------------------------------------------------------------------------


def _strip_hash(js):
    if js is None:
        return None
    try:
        d = json.loads(js)
    except ValueError:
        return js
    if isinstance(d, dict):
        d.pop("mtime", None)
        d.pop("inode", None)
    return json.dumps(d, sort_keys=True)


def canon_raw(con, with_meta=True):
    """Dump every persistent table with node ids replaced by kind:label."""
    key = {}
    nodes = []
    rows = con.execute("SELECT i, kind, label, creator, detached FROM node").fetchall()
    for i, kind, label, creator, detached in rows:
        key[i] = f"{kind}:{label}"
    for i, kind, label, creator, detached in rows:
        nodes.append((key[i], key.get(creator) if creator is not None else None, int(detached)))
    deps = []
    for i, s, k, dyn in con.execute(
        "SELECT d.i, d.source, d.sink, EXISTS(SELECT 1 FROM dynamic_dep x WHERE x.i = d.i) "
        "FROM dependency d"
    ):
        deps.append((key[s], key[k], int(dyn)))
    files = []
    for n, state, h in con.execute("SELECT node, state, hash FROM file"):
        files.append((key[n], state, _strip_hash(h)))
    steps = []
    cols = (
        "node, state, need, deferred, defer_count, shell, env_overrides, _holding, duration"
        + (", _safe, _check_safe, _safe_ignoring_hold, _implied_need, _check_after, _has_hash, "
           "_ready, _check_ready" if with_meta else "")
    )
    for row in con.execute(f"SELECT {cols} FROM step"):
        steps.append((key[row[0]], *row[1:]))
    envs = [(key[n], name, value, dyn) for n, name, value, dyn in con.execute(
        "SELECT node, name, value, dynamic FROM env_var")]
    ngl = [(key[n], pat, data) for n, pat, data in con.execute(
        "SELECT node, pattern, data FROM nglob ORDER BY i")]
    sh = [(key[n], h) for n, h in con.execute("SELECT node, hash FROM step_hash")]
    res = [(key[n], name, u) for n, name, u in con.execute(
        "SELECT node, name, units FROM step_resource")]
    return {
        "node": sorted(nodes, key=repr),
        "dependency": sorted(deps),
        "file": sorted(files, key=repr),
        "step": sorted(steps, key=repr),
        "env_var": sorted(envs, key=repr),
        "nglob": sorted(ngl),
        "step_hash": sorted(sh),
        "step_resource": sorted(res),
    }


def raw_key(raw):
    return json.dumps(raw, sort_keys=True, default=str)
