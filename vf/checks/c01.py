"""C01: an incremental build is equivalent to a build from scratch (DIRX, history BFS)."""

from .. import canon, hist, projects
from ..dirx import describe
from ..runner import Acc, h8

LEVEL = "model_checking"
RULE = (
    "breadth-first over edit histories (knob flips of the plan, source changes/deletions/restores, "
    "tracked environment variables) of each project family, a restart build after every edit, "
    "states deduplicated by (tables, file system, stat-shortcut bits); every distinct state is "
    "compared with a from-scratch build of the same sources; non-trivial: the history has at "
    "least one edit and the incremental build executed or skipped at least one step"
)
ASSUMPTIONS = [
    "builds inside a history use the default schedule; schedule independence is C02",
    "restart builds only in this check; watch-mode rebuilds are compared with restarts by C14",
]

FAMILIES = ["f_chain", "f_subplan", "f_glob", "f_amend", "f_env", "f_vol", "f_redefine",
            "f_optional", "f_hold", "f_dynout", "f_nested", "f_cutoff", "f_planuse", "f_failwrite"]
CFG = {"njob": 2}
# families whose default-schedule result the real tool need not reproduce (none at the moment)
SCHEDULE_DEPENDENT_FAMILIES = ()


def starts(fam, tier):
    out = [{"fam": fam, "knobs": {}}]
    if tier == "thorough":
        dom = projects.DOMAINS[fam]
        for knob, values in dom.items():
            out.append({"fam": fam, "knobs": {knob: values[-1]}})
    return out


def jobs(tier, seed):
    depth = 2 if tier == "quick" else 3
    out = []
    for fam in FAMILIES:
        for start in starts(fam, tier):
            out.append({"start": start, "first": None, "depth": 0})
            for elabel, d in hist.all_edits(start):
                out.append({"start": start, "first": (elabel, d), "depth": depth})
    # histories that pass through a failing plan: the globbing sub-plan is detached while the
    # plan is broken, files come and go, and the repaired plan recycles it
    start = {"fam": "f_glob", "knobs": {"cfg": 1}}
    broken = {"fam": "f_glob", "knobs": {"cfg": 1, "broken": 1}}
    out.append({"start": start, "first": ("broken=1", broken), "depth": 3})
    # the same with one more creator level between the plan and the globbing script
    start = {"fam": "f_glob", "knobs": {"cfg": 1, "mid": 1}}
    broken = {"fam": "f_glob", "knobs": {"cfg": 1, "mid": 1, "broken": 1}}
    out.append({"start": start, "first": ("broken=1", broken), "depth": 3})
    # conformance replays of the history engine against the real command line tool
    for fam in FAMILIES:
        if fam not in SCHEDULE_DEPENDENT_FAMILIES:
            out.append({"conform": True, "fam": fam})
    return out


def _norm_graph(att):
    """Drop stored digests of steps that are not SUCCEEDED: a reverted or pending step may keep
    the hash of an earlier run, which is not part of the states and relations C01 speaks of. The
    same holds for the environment variables such a step announced during that earlier run."""
    out = []
    for key, lines in att:
        if key.startswith("step:") and not any(ln.strip() == "state = SUCCEEDED" for ln in lines):
            lines = tuple(ln for ln in lines
                          if not ln.strip().startswith(("inp_digest", "out_digest", "explained"))
                          and not (ln.strip().startswith("using_env") and ln.rstrip().endswith("[dynamic]")))
        out.append((key, lines))
    return tuple(out)


def _files_only(fs):
    return {k: v for k, v in fs.items() if v != "dir"}


def adopted_paths(descs):
    """Paths that the plans of some build of the history declared static (directly, through a
    tree or a pattern): from then on they are the user's files, also after the declaration is
    dropped again, and a from-scratch build 'of the final sources' has them as sources."""
    from .c06 import declared_static, under_declared_static

    decls = [declared_static(d) for d in descs]

    def test(path):
        return any(under_declared_static(path, d) for d in decls)

    return test


def root_cause(fam, kind, small, detail):
    """Known root causes that show under many histories get one key per difference kind."""
    import json

    if fam == "f_subplan" and any(d.get("knobs", {}).get("inputs") == "tree" for d in small):
        if kind == "files":
            about = list(detail)
        elif kind == "graph":
            about = [d.get("node", "") for d in detail]
        else:
            about = [json.dumps(detail, default=str)]
        if all("sub/out" in x or "tr S " in x for x in about):
            return f"C01|f_subplan|static-tree-adopts-output|{kind}"
    return None


def compare(last, scratch, adopted=None):
    """Return a list of (kind, detail) differences between incremental and scratch results."""
    out = []
    if last.fault or last.error:
        return [("fault", {"fault": last.fault, "error": last.error})]
    if scratch.rc_class == "success":
        if last.rc_class != "success":
            return [("returncode", {"incremental": last.rc_class, "scratch": scratch.rc_class,
                                    "reports": [r[:2] for r in last.reports if r[0] in ("FAIL", "WARNING", "ERROR")]})]
        a, b = _files_only(last.fs), _files_only(scratch.fs)
        # a former output that an active step still names as an input is kept on purpose (the
        # exception of C07); it is neither a declared output nor part of the workflow's relations
        used = {p for s, ins in last.db_inputs.items() if not last.db_steps.get(s, {}).get("detached")
                for p, _ in ins}
        declared = {p for outs in last.db_outputs.values() for p in outs}
        for k in [k for k in a if k not in b and k in used and k not in declared]:
            del a[k]
        if adopted is not None:
            for k in [k for k in a if k not in b and adopted(k)]:
                del a[k]
        if a != b:
            out.append(("files", {k: (a.get(k), b.get(k)) for k in sorted(set(a) | set(b))
                                  if a.get(k) != b.get(k)}))
        ga, gb = _norm_graph(last.attached), _norm_graph(scratch.attached)
        if ga != gb:
            out.append(("graph", canon.diff_graphs(ga, gb, 6)))
    else:
        # The from-scratch build does not succeed, so there is no result to be equivalent to.
        # One case is still decided: a plan that the director rejects from scratch (a declaration
        # refused with a usage error) must not be accepted by the incremental build.
        rejected = [r for r in scratch.log if r[1] == "rpcfail"]
        if rejected and last.rc_class == "success":
            out.append(("accepts-invalid-plan", {"scratch_rejection": rejected[0][3:6],
                                                 "incremental": last.rc_class}))
    return out


def run_conform(spec):
    """Two-build histories (start, one edit) of a family: the closed system on its default
    schedule against the real `stepup build -j1` (real director, real restart path), whole
    databases and file trees compared after each build."""
    from .. import conform

    acc = Acc()
    fam = spec["fam"]
    start = {"fam": fam, "knobs": {}}
    base = hist.desc_files(start)
    done = []
    for elabel, d in hist.all_edits(start):
        new = hist.desc_files(d)
        delta = {p: c for p, c in new.items() if base.get(p) != c}
        delta.update({p: None for p in base if p not in new and not p.endswith("/")})
        env1 = dict(start.get("env", {}))
        env2 = dict(d.get("env", {}))
        diffs, n = conform.compare([base, delta], {"njob": 1}, environs=[env1 or None, env2 or None], tag="c1cf")
        acc.count("conformance_builds", n)
        acc.validated += n
        acc.evaluations += n
        done.append({"edit": elabel, "differences": len(diffs)})
        if diffs:
            acc.violation(f"C01|conformance|{fam}|{elabel}",
                          {"why": "the closed system and the real `stepup build` disagree after an edit",
                           "family": fam, "edit": elabel, "diffs": diffs[:6]}, None)
    acc.extra["conformance"] = [{"family": fam, "histories": len(done),
                                 "differing": sum(1 for x in done if x["differences"])}]
    return acc


def run_job(spec):
    if spec.get("conform"):
        return run_conform(spec)
    acc = Acc()
    fam = spec["start"]["fam"]

    def visit(labels, descs, obs_list, world):
        last = obs_list[-1]
        acc.evaluations += len(obs_list)
        acc.transitions += sum(o.nev for o in obs_list)
        acc.states.add(h8([last.raw, sorted(last.fs.items())]))
        if labels and (len(last.started) > 0 or any(r[0] == "SKIP" for r in last.reports)):
            acc.nontrivial.add(h8([fam, labels, hist.desc_key(descs[0])]))
        acc.outcomes.setdefault(h8([fam, last.rc_class, last.attached]), 1)
        rep = {"check": "C01", "descs": descs, "labels": labels}
        if len(obs_list) < len(descs):
            acc.violation(f"C01|{fam}|fault-midway", {"labels": labels, "exec": describe(last)}, rep)
            return
        scratch = hist.scratch_build(descs[-1], CFG)
        acc.evaluations += 1
        for kind, detail in compare(last, scratch, adopted_paths(descs)):
            def violates(cand, kind=kind):
                w, ol = hist.run_history(cand, CFG)
                w.destroy()
                if len(ol) < len(cand):
                    return False
                return any(k == kind for k, _ in compare(ol[-1], hist.scratch_build(cand[-1], CFG),
                                                         adopted_paths(cand)))

            small = hist.shrink(descs, violates)
            acc.violation(
                root_cause(fam, kind, small, detail) or f"C01|{fam}|{kind}|{hist.history_label(small)}",
                {"family": fam, "start": descs[0].get("knobs"), "edits": labels, "difference": kind,
                 "minimal_history": hist.history_label(small),
                 "detail": detail, "last_build": describe(last, 50)},
                {"check": "C01", "descs": small, "labels": labels},
            )
        if labels:
            acc.sample({"family": fam, "edits": labels, "rc": last.rc_class, "started": last.started})

    nrun, nstates, trunc = hist.bfs(spec["start"], spec["depth"], hist.all_edits, visit, CFG,
                                    first=spec["first"])
    acc.count("histories", nrun)
    if trunc:
        acc.caps.append(f"{fam}: state cap")
    acc.extra["depth"] = spec["depth"]
    return acc


def coverage_extra(total, tier):
    return {"edit_depth": 2 if tier == "quick" else 3, "families": FAMILIES,
            "conformance": sorted(total.extra.get("conformance", []), key=lambda d: d["family"])}


def replay(doc):
    import json

    print(json.dumps(doc.get("what"), indent=1, default=str)[:8000])
    rep = doc.get("replay") or {}
    if "descs" in rep:
        world, obs_list = hist.run_history(rep["descs"], CFG)
        for o in obs_list:
            print("---- build:", o.rc_class, o.started)
            for r in o.reports:
                print("   ", r[0], r[1])
        print(obs_list[-1].graph_text)
        world.destroy()
    return 0
