"""C02: the result of a build does not depend on scheduling (DIRX, schedule DFS)."""

from .. import canon, projects
from ..dirx import describe, fresh_world, session
from ..explore import explore, split_roots
from ..runner import Acc, h8

LEVEL = "model_checking"
RULE = (
    "every schedule of each (project, jobs, resources) with at most d deviations from the default "
    "event order is executed on the real director; an execution is non-trivial when at least two "
    "commands overlapped in time or an RPC request was rejected; states = distinct final "
    "(return code, graph, file system) outcomes plus distinct quiescent event traces"
)
ASSUMPTIONS = [
    "child processes, hash threads, reporter replies are substituted by gates (DESIGN.md 2.1)",
    "deviation bound d as reported in coverage.bound; schedules with more deviations not covered",
]


# projects whose result is known to depend on the schedule (known findings): the real CLI run has
# a schedule of its own, so they are no conformance subjects
SCHEDULE_DEPENDENT = ("selfprod", "two:glob_vs_output_conflict", "chain:edit-outputs")


def run_conform(spec):
    from .. import conform

    acc = Acc()
    fam, knobs = spec["proj"]
    knobs = dict(knobs)
    edits = knobs.pop("__edits__", None)
    builds = [build_files((fam, knobs))]
    if edits:
        builds.append({op[1]: (op[2] if op[0] == "write" else None) for op in edits})
    diffs, n = conform.compare(builds, tag="cf")
    acc.count("conformance_builds", n)
    acc.validated += n
    acc.extra["conformance"] = [{"project": spec["conform"], "builds": n, "differences": len(diffs)}]
    if diffs:
        acc.violation(f"C02|conformance|{spec['conform']}",
                      {"why": "the closed system and the real `stepup build` disagree", "diffs": diffs}, None)
    return acc


def project_list(tier):
    out = []
    out.append(("chain", ("f_chain", {})))
    out.append(("chain_opt", ("f_chain", {"b_need": "OPTIONAL"})))
    for kind in projects.TWOPLAN_KINDS:
        out.append((f"two:{kind}", ("f_twoplans", {"kind": kind})))
    out.append(("amend_static", ("f_amend", {"extra": "static"})))
    out.append(("amend_built", ("f_amend", {"extra": "built"})))
    out.append(("amend_tree", ("f_amend", {"extra": "tree"})))
    out.append(("amend_built_readfirst", ("f_amend", {"extra": "built", "order": "read_first"})))
    out.append(("resource", ("f_resource", {})))
    out.append(("subplan", ("f_subplan", {})))
    out.append(("subplan_tree", ("f_subplan", {"inputs": "tree"})))
    out.append(("selfprod", ("f_selfprod", {})))
    out.append(("pc4", ("f_prodcons4", {})))
    for lead in (0, 2, 4):
        out.append((f"deferwin{lead}", ("f_deferwin", {"lead": lead})))
    # a deferred planning script runs again while the slow consumer of a chain it defined may
    # complete detached, before both steps of the chain are re-declared
    for slow_len in (4, 8):
        out.append((f"deferchain{slow_len}", ("f_deferplan", {"chain": 1, "slow_len": slow_len})))
    # a rebuild in which a producer runs again and reproduces its output byte for byte while a
    # consumer (a new version of its script) amends that output
    for lead in (0, 1):
        out.append((f"outamend{lead}", ("f_outamend", {"lead": lead, "__edits__": [
            ("write", "src.txt", "source y\n"),
            ("write", "w.py", projects.f_outamend(lead=lead, wv=2)["w.py"])]})))
    # incremental builds: a first build with the default schedule, user edits, then every schedule
    out.append(("chain:edit-outputs", ("f_chain", {"__edits__": [("write", "c.txt", "user\n"), ("write", "a.txt", "user\n")]})))
    out.append(("chain:edit-src+out", ("f_chain", {"__edits__": [("write", "src.txt", "edited\n"), ("remove", "c.txt")]})))
    out.append(("amend:edit-extra", ("f_amend", {"extra": "built", "__edits__": [("remove", "extra.txt")]})))
    return out


def configs(name, tier):
    jobs = (1, 4) if name == "pc4" else (1, 2, 3)
    if name.startswith("outamend"):
        yield {"njob": 1, "resources": None}
        yield {"njob": 3, "resources": None}
        yield {"njob": 3, "resources": None, "policy": "fifo"}
        return
    if name.startswith(("deferwin", "deferchain")):
        # two base schedules with four jobs, and the sequential one
        yield {"njob": 1, "resources": None}
        yield {"njob": 4, "resources": None}
        yield {"njob": 4, "resources": None, "policy": "fifo"}
        return
    if name == "resource":
        # only availabilities that satisfy every demand: an unsatisfiable demand legitimately
        # leaves a step pending, which is a matter of configuration, not of scheduling
        res = ("cpu:2", "cpu:3", "cpu:4")
    else:
        res = (None,)
    for nj in jobs:
        for r in res:
            yield {"njob": nj, "resources": r}


def bound_for(name, tier):
    if tier == "quick":
        return 2 if (name.startswith("two:") and "conflict" in name) or name == "pc4" or name.startswith("outamend") else 1
    return 2


def build_files(proj):
    fam, knobs = proj
    return getattr(projects, fam)(**knobs)


def _run(spec, prefix):
    fam, knobs = spec["proj"]
    knobs = dict(knobs)
    edits = knobs.pop("__edits__", None)
    files = build_files((fam, knobs))
    w = fresh_world(files)
    cfg = dict(spec["cfg"])
    if edits:
        session(w, {"njob": 2}, ())
        for op in edits:
            if op[0] == "write":
                w.write(op[1], op[2])
            else:
                w.remove(op[1])
    obs = session(w, cfg, prefix)
    resumed = None
    if obs.ok() and obs.rc_class == "success":
        resumed = session(w, cfg, ())
    w.destroy()
    return obs, resumed


def jobs(tier, seed):
    from . import c08

    out = [{"texts": True, "ia": ia, "tier": tier} for ia in range(len(c08.declarations()))]
    # conformance replays: the default schedule of the closed system against the real CLI
    for name, proj in project_list(tier):
        if name not in SCHEDULE_DEPENDENT:
            out.append({"conform": name, "proj": proj})
    for name, proj in project_list(tier):
        for cfg in configs(name, tier):
            spec = {"name": name, "proj": proj, "cfg": cfg, "bound": bound_for(name, tier)}
            if tier == "quick" and spec["bound"] <= 1:
                out.append({**spec, "root": [], "only_root": False})
            else:
                obs, _ = _run(spec, [])
                for r in split_roots(obs.points, spec["bound"]):
                    out.append({**spec, **r})
    return out


def _overlap(obs):
    wins = sorted((w[2], w[3]) for w in obs.cmd_windows)
    return any(wins[i + 1][0] < wins[i][1] for i in range(len(wins) - 1))


def run_texts(spec):
    """Every ordered pair of declarations in both arrival orders: the rejection text must agree."""
    from . import c08

    sub = Acc()
    c08.run_pairs({"ia": spec["ia"], "tier": spec["tier"]}, sub)
    acc = Acc()
    acc.evaluations = sub.evaluations
    acc.transitions = sub.transitions
    acc.states = {"t" + s for s in sub.states}
    acc.nontrivial = {"t" + s for s in sub.nontrivial}
    for rec in sub.extra.get("texts", []):
        kinds = {rec["claims"][0][0], rec["claims"][1][0]}
        cls = f"{min(rec['a'], rec['b'])}|{max(rec['a'], rec['b'])}"
        if kinds == {"inp", "vol"}:
            cls = "input-vs-volatile-output"
        elif kinds == {"tree"}:
            cls = "nested-static-trees"
        acc.violation(f"C02|text-depends-on-order|{cls}",
                      {"why": "the text of the rejection depends on which declaration arrived first", **rec}, None)
    return acc


def run_job(spec):
    if spec.get("texts"):
        return run_texts(spec)
    if spec.get("conform"):
        return run_conform(spec)
    acc = Acc()
    name = spec["name"]
    oc = acc.extra.setdefault("oc", {})

    def run(prefix):
        obs, resumed = _run(spec, prefix)
        obs.resumed = resumed
        return obs

    def visit(prefix, obs):
        acc.evaluations += 1
        acc.transitions += obs.nev
        acc.states.add(h8(obs.trace))
        texts = sorted({(r[4], r[5]) for r in obs.log if r[1] == "rpcfail"})
        if _overlap(obs) or texts:
            acc.nontrivial.add(h8([name, spec["cfg"], obs.choices]))
        rep = {"check": "C02", "spec": spec, "prefix": obs.choices}
        if not obs.ok() or obs.exceptions or obs.unhandled:
            acc.violation(
                f"C02|{name}|fault|{(obs.fault or ['error'])[0]}",
                {"project": name, "cfg": spec["cfg"], "exec": describe(obs),
                 "exceptions": obs.exceptions[:2], "unhandled": obs.unhandled[:2]},
                rep,
            )
            return
        key = obs.outcome_key()
        acc.outcomes.setdefault(f"{name}|{key}", 1)
        entry = {
            "rc": obs.rc_class, "graph": obs.graph if obs.rc_class == "success" else None,
            "fs": sorted(obs.fs.items()) if obs.rc_class == "success" else None,
            "texts": texts, "cfg": spec["cfg"], "prefix": obs.choices, "started": obs.started,
        }
        sig = h8([entry["rc"], entry["graph"], entry["fs"], texts])
        oc.setdefault(f"{name}|{sig}", entry)
        acc.sample({"project": name, "cfg": spec["cfg"], **describe(obs, 12)})
        r = obs.resumed
        if r is not None:
            acc.evaluations += 1
            acc.transitions += r.nev
            if not r.ok() or r.rc_class != "success" or r.started or r.graph != obs.graph:
                acc.violation(
                    f"C02|{name}|resumed",
                    {"project": name, "cfg": spec["cfg"], "why": "resumed run with nothing changed "
                     "started commands, failed, or changed the graph",
                     "started": r.started, "rc": r.rc_class, "fault": r.fault, "error": r.error,
                     "diff": canon.diff_graphs(obs.graph, r.graph or ()), "fresh": describe(obs)},
                    rep,
                )

    limit = 1 if spec.get("only_root") else None
    n, trunc = explore(run, spec["bound"], visit, root=spec["root"], limit=limit)
    if trunc and not spec.get("only_root"):
        acc.caps.append(f"{name}: truncated")
    acc.extra["bound"] = {name: spec["bound"]}
    return acc


def finish(total, tier, seed):
    by_proj = {}
    for k, entry in total.extra.get("oc", {}).items():
        by_proj.setdefault(k.split("|")[0], []).append(entry)
    for name, entries in sorted(by_proj.items()):
        rcs = sorted({e["rc"] for e in entries})
        if len(rcs) > 1:
            ex = {rc: next(e for e in entries if e["rc"] == rc) for rc in rcs}
            total.violation(
                f"C02|{name}|rc-depends-on-schedule",
                {"project": name, "why": "return code class depends on schedule/configuration",
                 "classes": rcs,
                 "examples": {rc: {"cfg": e["cfg"], "prefix": e["prefix"], "started": e["started"]}
                              for rc, e in ex.items()}},
                {"check": "C02", "name": name, "examples": {rc: {"cfg": e["cfg"], "prefix": e["prefix"]} for rc, e in ex.items()}},
            )
            continue
        succ = [e for e in entries if e["rc"] == "success"]
        graphs = {h8(e["graph"]): e for e in succ}
        if len(graphs) > 1:
            a, b = list(graphs.values())[:2]
            diff_all = canon.diff_graphs(a["graph"], b["graph"], 1000)
            digest_only = all(
                isinstance(d, dict) and d.get("a") and d.get("b")
                and [x for x in d["a"] if "inp_digest" not in x] == [x for x in d["b"] if "inp_digest" not in x]
                for d in diff_all) and len(fss_of(succ)) == 1
            total.violation(
                # one root cause under many projects: an input that is not available (OUTDATED,
                # detached) at the moment its consumer completes is left out of the stored input
                # digest; states, relations and files agree
                "C02|inp-digest-depends-on-schedule|" + name.split("/")[0] + "|"
                + ",".join(sorted({str(d.get("node")) for d in diff_all})) if digest_only else
                f"C02|{name}|graph-depends-on-schedule",
                {"project": name, "why": "graph after a successful build depends on schedule",
                 "a": {"cfg": a["cfg"], "prefix": a["prefix"]}, "b": {"cfg": b["cfg"], "prefix": b["prefix"]},
                 "diff": canon.diff_graphs(a["graph"], b["graph"])},
                {"check": "C02", "name": name, "a": {"cfg": a["cfg"], "prefix": a["prefix"]},
                 "b": {"cfg": b["cfg"], "prefix": b["prefix"]}},
            )
        fss = {h8(e["fs"]): e for e in succ}
        if len(fss) > 1:
            a, b = list(fss.values())[:2]
            total.violation(
                f"C02|{name}|files-depend-on-schedule",
                {"project": name, "a": a["fs"], "b": b["fs"], "pa": a["prefix"], "pb": b["prefix"]},
                None,
            )
        texts = {h8(e["texts"]): e for e in entries if e["rc"] != "success"}
        if len(texts) > 1 and "conflict" in name:
            a, b = list(texts.values())[:2]
            total.violation(
                f"C02|{name}|text-depends-on-order",
                {"project": name, "why": "rejection text depends on arrival order",
                 "a": a["texts"], "b": b["texts"], "pa": a["prefix"], "pb": b["prefix"]},
                None,
            )
    total.extra.pop("oc", None)


def fss_of(entries):
    return {h8(e["fs"]) for e in entries}


def coverage_extra(total, tier):
    return {"bound": total.extra.get("bound", {}), "projects": len(total.extra.get("bound", {})),
            "conformance": sorted(total.extra.get("conformance", []), key=lambda d: d["project"])}


def replay(doc):
    import json

    rep = doc.get("replay") or {}
    print(json.dumps(doc.get("what"), indent=1, default=str)[:6000])
    if "spec" in rep:
        obs, resumed = _run(rep["spec"], rep["prefix"])
        print("\n".join(obs.trace))
        print("rc:", obs.rc_class, "fault:", obs.fault, "error:", obs.error)
        print(obs.graph_text)
    return 0
