"""C03: a step only succeeds on inputs that were final while it ran (DIRX + file monitor)."""

from .. import projects
from ..dirx import describe, fresh_world, session
from ..explore import explore, split_roots
from ..harness import EnvEvent
from ..runner import Acc, h8

LEVEL = "model_checking"
RULE = (
    "every interleaving with at most d deviations of producer actions, consumer actions, amend "
    "requests, hash results, reporter replies, optional external writes to an input (new content, or a replacement that keeps size, mode and mtime) and clock "
    "ties; non-trivial: a consumer command overlapped its producer, an amend was deferred, or an "
    "external write landed inside a command window"
)
ASSUMPTIONS = [
    "file content is observed at event granularity (every simulated read/write is one event)",
    "external modifications are single writes with new content at any quiescent point",
]


def project_list(tier):
    out = []
    for consumer in ("amend_first", "read_first"):
        for by in ("plan", "step"):
            out.append((f"pc:{consumer}:{by}", ("f_prodcons", {"consumer": consumer, "producer_by": by}), None))
    out.append(("pc:declared", ("f_prodcons", {"consumer": "plain", "declared": 1}), None))
    # one amendment names the product and a file under a static tree: the request waits for the
    # hash of the tree file between two transactions, and the producer may finish in that wait
    for consumer in ("amend_first", "read_first"):
        out.append((f"pc:tree:{consumer}", ("f_prodcons", {"consumer": consumer, "tree": 1}), None))
    out.append(("tree", ("f_treeamend", {}), None))
    out.append(("pc4", ("f_prodcons4", {}), None))
    out.append(("amend_static", ("f_amend", {"extra": "static"}), None))
    # external writes to an input while the build runs
    out.append(("ext:src", ("f_prodcons", {"consumer": "amend_first"}), "src.txt"))
    out.append(("ext:o", ("f_prodcons", {"consumer": "amend_first"}), "o.txt"))
    out.append(("ext:extra", ("f_amend", {"extra": "static"}), "extra.txt"))
    out.append(("ext:tree", ("f_treeamend", {}), "t/x.txt"))
    # the same, but the input is replaced (rename) by a file with other content and the same
    # size, mode and modification time: only the inode and the digest tell
    # the input vanishes under the running steps (two of them share it in the tree project)
    out.append(("rm:src", ("f_prodcons", {"consumer": "amend_first"}), "rm:src.txt"))
    out.append(("rm:tree", ("f_treeamend", {}), "rm:t/x.txt"))
    out.append(("rm:extra", ("f_amend", {"extra": "static"}), "rm:extra.txt"))
    out.append(("swap:src", ("f_prodcons", {"consumer": "amend_first"}), "swap:src.txt"))
    out.append(("swap:extra", ("f_amend", {"extra": "static"}), "swap:extra.txt"))
    # a second build in which the plan runs again and re-declares the producer (a new version)
    # only after the consumer (a new version too) was re-declared and may already run: the old
    # o.txt is on disk, detached and BUILT, while the consumer amends it
    out.append(("pc:redeclared-late", ("f_prodcons", {"late": 1, "pv": 2, "cv": 2,
                                                      "__first__": ("f_prodcons", {})}), None))
    for cv in (1, 2):
        out.append((f"pc:redeclared-late-noinput:cv{cv}",
                    ("f_prodcons", {"late": 2, "pv": 2, "cv": cv, "__first__": ("f_prodcons", {"late": 2})}), None))
    out.append(("pc:redeclared-late-readfirst", ("f_prodcons", {"late": 1, "pv": 2, "cv": 2, "consumer": "read_first",
                                                                "__first__": ("f_prodcons", {"consumer": "read_first"})}), None))
    # a second build after two simultaneous edits: the source of the chain and its last output
    out.append(("chain:two-edits", ("f_chain", {"__edits__": [("write", "src.txt", "edited source\n"),
                                                              ("remove", "c.txt")]}), None))
    out.append(("chain:edit+touch-out", ("f_chain", {"__edits__": [("write", "src.txt", "edited source\n"),
                                                                   ("write", "c.txt", "user\n")]}), None))
    return out


def env_events_for(ext, ties):
    def env(sim):
        evs = []
        if ext and not sim.flags & {"ext"} and sim.handler is not None and sim.running:
            def fn(s, ext=ext):
                s.flags.add("ext")
                s.ext_at = s.nev
                if ext.startswith("swap:"):
                    s.ext_swap(ext[5:])
                elif ext.startswith("rm:"):
                    s.ext_remove(ext[3:])
                else:
                    s.ext_write(ext, f"changed by user at {s.nev}\n")
            evs.append(EnvEvent(f"write {ext}", fn))
        if ties and sim.handler is not None and sim.running and "tie" not in sim.flags:
            def tie(s):
                s.flags.add("tie")
                s.clock_stall = 1
            evs.append(EnvEvent("clock-tie", tie))
        return evs
    return env


def _run(spec, prefix):
    import hashlib

    fam, knobs = spec["proj"]
    knobs = dict(knobs)
    edits = knobs.pop("__edits__", None)
    first = knobs.pop("__first__", None)
    files = getattr(projects, fam)(**knobs)
    if first:
        files1 = getattr(projects, first[0])(**first[1])
        w = fresh_world(files1)
        session(w, {"njob": spec["njob"]}, ())
        from .. import hist as _hist
        _hist.sync(w, files1, files)
    else:
        w = fresh_world(files)
    cfg = {"njob": spec["njob"], "env_events": env_events_for(spec["ext"], spec["ties"]),
           "on_start": on_start, "exit_gate": spec.get("exit_gate", False) or bool(edits),
           "policy": spec.get("policy", "thread")}
    if edits:
        session(w, {"njob": spec["njob"]}, ())
        for op in edits:
            if op[0] == "write":
                w.write(op[1], op[2])
            else:
                w.remove(op[1])
    initial = {}
    for rel, val in w.fs_state().items():
        if val != "dir":
            initial[rel] = hashlib.sha256(w.read(rel)).hexdigest()
    obs = session(w, cfg, prefix)
    obs.initial_digests = initial
    w.destroy()
    return obs


def on_start(sim, proc):
    """(a) every declared input is attached, BUILT/CONFIRMED and present when the command starts."""
    con = sim.db._con
    rows = con.execute(
        "SELECT f.label, f.detached, file.state FROM dependency d "
        "JOIN node s ON s.i = d.sink JOIN node f ON f.i = d.source JOIN file ON file.node = f.i "
        "WHERE s.kind = 'step' AND s.label = ? AND NOT s.detached", (proc.label,)).fetchall()
    for label, det, state in rows:
        if det or state not in (14, 16):
            sim.monitor.append(("start-unavailable", f"{proc.label} started with input {label} "
                                f"detached={det} state={state}"))
        elif not sim.world.exists(label):
            # a file the user removed a moment ago is not the director's doing: the command then
            # fails on it, which the other parts of the oracle judge
            last = [w for w in sim.world.writes if w[1] == label]
            if not (last and last[-1][2] is None and last[-1][3] == "user"):
                sim.monitor.append(("start-missing", f"{proc.label} started, input {label} not on disk"))
        else:
            # the producer's completion must be committed: no running command writes this path
            for other in sim.running.values():
                if other is not proc and any(wr[1] == label for wr in other.writes):
                    sim.monitor.append(("start-producer-running",
                                        f"{proc.label} started while {other.label} (writer of {label}) runs"))


def content_history(obs):
    import hashlib

    hist = {}
    for path, dg in obs.initial_digests.items():
        hist[path] = [(0, dg)]
    for rec in obs.log:
        if rec[1] == "write":
            hist.setdefault(rec[3], []).append((rec[0], rec[4]))
    return hist


def digest_at(hist, path, ev):
    cur = None
    for e, dg in hist.get(path, []):
        if e <= ev:
            cur = dg
    return cur


def analyse(obs, spec):
    """Return a list of (kind, message) violations of C03 in this execution.

    Window of accountability: for writes by other steps of the workflow, the whole command window;
    for external (user) writes, from the moment the director knew the input (command start for
    declared inputs, the amend request for amended ones): a user change before that moment is
    unobservable to any implementation and the step then reads what is recorded.
    """
    out = [(k, m) for k, m in obs.monitor]
    if obs.graph_text is None:
        return out
    hist = content_history(obs)
    writes = {}
    for rec in obs.log:
        if rec[1] == "write":
            writes.setdefault(rec[3], []).append((rec[0], rec[2], rec[4]))
    runs = {}
    for p in obs.procs:
        runs.setdefault(p["label"], []).append(p)
    wins = {}
    for label, job, s, e, rc in obs.cmd_windows:
        wins[(label, job)] = (s, e, rc)
    for label, st in obs.db_steps.items():
        if st["state"] != "SUCCEEDED" or label not in runs:
            continue
        p = runs[label][-1]
        if (label, p["job_i"]) not in wins:
            continue
        s, e, rc = wins[(label, p["job_i"])]
        if rc != 0:
            continue
        for path, dyn in obs.db_inputs.get(label, []):
            ann = p["announced"].get(path, s)
            for ev, who, dg in writes.get(path, []):
                if who == label:
                    continue
                if who != "<user>" and s < ev <= e:
                    out.append(("write-during-run", f"{label} SUCCEEDED although {who} wrote {path} "
                                f"at event {ev} inside its command window ({s},{e}]"))
                if who == "<user>" and ann < ev <= e:
                    out.append(("ext-change-succeeded", f"{label} SUCCEEDED although the user changed "
                                f"{path} at event {ev}, after it was announced at {ann}"))
            at_ann = digest_at(hist, path, ann)
            if at_ann is None:
                out.append(("missing-input", f"{label} SUCCEEDED although input {path} did not exist "
                            f"when it was announced (event {ann})"))
            later = [ev for ev, who, dg in writes.get(path, []) if ev > ann]
            rec = obs.db_files.get(path)
            if not later and rec is not None and at_ann is not None and rec[1] != at_ann:
                out.append(("stale-record", f"{label} SUCCEEDED on {path} with content {at_ann[:8]} "
                            f"but {str(rec[1])[:8]} is recorded at the end"))
            for ev, rpath, dg in p["reads"]:
                if rpath == path and ev >= ann and not later and rec is not None and dg != rec[1]:
                    out.append(("stale-read", f"{label} read {path} as {str(dg)[:8]} at {ev}, recorded "
                                f"{str(rec[1])[:8]}"))
            # (c) the producer of an input was still running after this run started
            for q in obs.procs:
                if q["label"] == label or not any(w[1] == path for w in q["writes"]):
                    continue
                qs, qe, _ = wins.get((q["label"], q["job_i"]), (None, None, None))
                if qs is not None and qe > s and qs < e:
                    out.append(("ran-concurrently", f"{label} SUCCEEDED from a run ({s},{e}) that "
                                f"overlapped producer {q['label']} ({qs},{qe}) of input {path}"))
    # (d) an announced input changed under a running step: that run fails, dispatch stops
    for p in obs.procs:
        key = (p["label"], p["job_i"])
        if key not in wins:
            continue
        s, e, rc = wins[key]
        hit = [(path, ev) for path, ann in p["announced"].items()
               for ev, who, dg in writes.get(path, []) if who == "<user>" and ann < ev <= e]
        if not hit:
            continue
        path, ev = hit[0]
        label = p["label"]
        st = obs.db_steps.get(label, {}).get("state")
        last = runs[label][-1] is p
        # a run that is deferred (it announced an input that is not available yet) is covered by
        # the other sentence of the property: it "runs again later instead of succeed", and the
        # later run is judged on its own by (b) and (c); the fail-and-drain sentence is about
        # runs that would otherwise have been recorded
        later = [q for q in runs[label] if wins.get((q["label"], q["job_i"]), (0,))[0] > e]
        nxt = min((wins[(q["label"], q["job_i"])][0] for q in later), default=float("inf"))
        if any(r[1] == "report" and r[2] == "DEFERRED" and r[3] == label and e <= r[0] < nxt
               for r in obs.log):
            continue
        failed_after = [r for r in obs.log if r[1] == "report" and r[2] == "FAIL" and r[3] == label
                        and r[0] >= ev]
        if last and (st == "SUCCEEDED" or not failed_after):
            out.append(("ext-change-not-failed", f"{path} changed under {label} (event {ev}) but the "
                        f"step ends {st} (FAIL reports after the change: {len(failed_after)})"))
        if not obs.draining:
            out.append(("ext-change-no-drain", f"{path} changed under {label} but dispatch was not stopped"))
        drain_pos = [i for i, r in enumerate(obs.log)
                     if r[1] == "report" and r[2] == "ERROR" and "draining" in r[3]]
        if drain_pos:
            late = [r for r in obs.log[drain_pos[0] + 1:] if r[1] == "DISPATCH"]
            if late:
                out.append(("dispatch-after-drain", f"{late[0][2]} dispatched after the drain for {label}"))
    return out


def jobs(tier, seed):
    out = []
    for name, proj, ext in project_list(tier):
        for nj in ((4,) if name == "pc4" else (2, 3)):
            bound = (2 if tier == "quick" else 3)
            if ext:
                bound = 2 if tier == "quick" else 3
            # projects whose point is a window during a re-running plan also run on the
            # oldest-event-first base schedule, where the plan and its steps advance in turn
            policies = ("thread", "fifo") if name.startswith("pc:redeclared") or name == "pc4" else ("thread",)
            for policy in policies:
                spec = {"name": name if policy == "thread" else f"{name}/{policy}", "proj": proj, "ext": ext,
                        "njob": nj, "bound": bound if policy == "thread" else 1, "policy": policy,
                        "ties": tier == "thorough" and not ext}
                obs = _run(spec, [])
                for r in split_roots(obs.points, spec["bound"]):
                    out.append({**spec, **r})
    return out


def run_job(spec):
    acc = Acc()
    name = spec["name"]

    def visit(prefix, obs):
        acc.evaluations += 1
        acc.transitions += obs.nev
        acc.states.add(h8(obs.trace))
        wins = sorted((w[2], w[3]) for w in obs.cmd_windows)
        overlap = any(wins[i + 1][0] < wins[i][1] for i in range(len(wins) - 1))
        deferred = any(r[0] == "DEFERRED" for r in obs.reports)
        if (overlap and len(obs.cmd_windows) > 2) or deferred or "ext" in obs.flags:
            acc.nontrivial.add(h8([name, spec["njob"], obs.choices]))
        if deferred:
            acc.count("deferred_runs")
        if "ext" in obs.flags:
            acc.count("external_writes")
        states = tuple(sorted((k, v["state"]) for k, v in (getattr(obs, "db_steps", {}) or {}).items()))
        acc.outcomes.setdefault(h8([name, obs.rc_class, states]), 1)
        rep = {"check": "C03", "spec": spec, "prefix": obs.choices}
        for kind, msg in analyse(obs, spec):
            acc.violation(f"C03|{name}|{kind}", {"project": name, "kind": kind, "what": msg,
                                                  "exec": describe(obs, 60)}, rep)
        if not obs.ok() or obs.exceptions:
            acc.violation(f"C03|{name}|fault", {"project": name, "exec": describe(obs),
                                                  "exceptions": obs.exceptions[:2]}, rep)
        if deferred or "ext" in obs.flags:
            acc.sample({"project": name, "njob": spec["njob"], **describe(obs, 30)})

    limit = 1 if spec.get("only_root") else None
    _, trunc = explore(lambda p: _run(spec, p), spec["bound"], visit, root=spec["root"], limit=limit)
    if trunc and not spec.get("only_root"):
        acc.caps.append(name)
    acc.extra["bound"] = {name: spec["bound"]}
    return acc


def coverage_extra(total, tier):
    return {"bound": total.extra.get("bound")}


def replay(doc):
    import json

    print(json.dumps(doc.get("what"), indent=1, default=str)[:5000])
    rep = doc.get("replay") or {}
    if "spec" in rep:
        obs = _run(rep["spec"], rep["prefix"])
        for rec in obs.log:
            print(rec)
        print(analyse(obs, rep["spec"]))
    return 0
