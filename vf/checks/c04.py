"""C04: rebuilding with nothing changed does nothing; edits rerun only their cone (history BFS)."""

import itertools
import os
import re

from .. import hist
from ..dirx import describe
from ..harness import SHEBANG
from ..runner import Acc, h8
from .c01 import CFG, FAMILIES, starts

LEVEL = "model_checking"
RULE = (
    "every successful end state reached by edit histories (as in C01) is followed by a restart "
    "with nothing changed, and by every non-empty subset of plain source files edited (content, "
    "touch only, mode) and a rebuild; non-trivial: a state reached after at least one edit, or a "
    "source edit that executed at least one command"
)
ASSUMPTIONS = [
    "no-op rebuilds are restarts here; the watch-mode variant is tied to restarts by C14",
    "cone reference is computed from the pre-edit graph (consumers, glob regexes, declared steps)",
]


def meta_of_outputs(world, sources):
    return {k: v for k, v in world.fs_state(with_meta=True).items() if k not in sources and v != "dir"}


def cone(obs, edited):
    """Steps that may legitimately execute after editing `edited` (labels)."""
    steps = {s for s, st in obs.db_steps.items() if not st["detached"]}
    in_cone = set()
    for s in steps:
        if any(p in edited for p, _ in obs.db_inputs.get(s, [])):
            in_cone.add(s)
        for rx in obs.db_nglobs.get(s, []):
            if any(re.compile(rx).fullmatch(p) for p in edited):
                in_cone.add(s)
    changed = True
    while changed:
        changed = False
        for s in steps - in_cone:
            # consumes an output of a step in the cone
            ins = {p for p, _ in obs.db_inputs.get(s, [])}
            if any(ins & set(obs.db_outputs.get(c, [])) for c in in_cone):
                in_cone.add(s)
                changed = True
                continue
            # was declared by a step in the cone
            if obs.db_creator.get(f"step:{s}", "").removeprefix("step:") in in_cone:
                in_cone.add(s)
                changed = True
    return in_cone


def dynamic_cone(pre, post, edited):
    """Steps that may execute given which steps actually executed: consumers of an edited file or
    of a changed glob match, and then only consumers of outputs of steps that did execute, and
    steps declared by steps that did execute."""
    steps = {s for s, st in post.db_steps.items()} | {s for s in pre.db_steps}
    executed = set(post.started)
    inputs = {s: {p for p, _ in post.db_inputs.get(s, [])} | {p for p, _ in pre.db_inputs.get(s, [])} for s in steps}
    outputs = {s: set(post.db_outputs.get(s, [])) | set(pre.db_outputs.get(s, [])) for s in steps}
    valid = set()
    for s in steps:
        if inputs[s] & edited:
            valid.add(s)
        for rx in pre.db_nglobs.get(s, []):
            if any(re.compile(rx).fullmatch(p) for p in edited):
                valid.add(s)
    changed = True
    while changed:
        changed = False
        for s in steps - valid:
            for e in valid & executed:
                creator = (post.db_creator.get(f"step:{s}") or pre.db_creator.get(f"step:{s}", "")).removeprefix("step:")
                if inputs[s] & outputs[e] or creator == e:
                    valid.add(s)
                    changed = True
                    break
    return valid


def plain_sources(files):
    return sorted(p for p, c in files.items() if not p.endswith("/") and c is not None
                  and not c.startswith(SHEBANG))


def jobs(tier, seed):
    depth = 2 if tier == "quick" else 3
    out = []
    for fam in FAMILIES:
        for start in starts(fam, tier):
            out.append({"start": start, "first": None, "depth": 0})
            for elabel, d in hist.all_edits(start):
                out.append({"start": start, "first": (elabel, d), "depth": depth})
    return out


def run_job(spec):
    acc = Acc()
    fam = spec["start"]["fam"]

    def visit(labels, descs, obs_list, world):
        last = obs_list[-1]
        acc.evaluations += len(obs_list)
        acc.transitions += sum(o.nev for o in obs_list)
        acc.states.add(h8([last.raw, sorted(last.fs.items())]))
        if len(obs_list) < len(descs) or last.rc_class != "success" or not last.ok():
            return
        if labels:
            acc.nontrivial.add(h8([fam, labels]))
        desc = descs[-1]
        files = hist.desc_files(desc)
        rep = {"check": "C04", "descs": descs, "labels": labels}
        # (a) restart with nothing changed
        before = meta_of_outputs(world, files)
        again = hist.build(world, desc, CFG)
        acc.evaluations += 1
        after = meta_of_outputs(world, files)
        problems = []
        if again.started:
            problems.append({"executed": again.started})
        if not any(r[0] == "DIRECTOR" and r[1].startswith("Ran 0 job") for r in again.reports):
            problems.append({"ran": [r[1] for r in again.reports if r[0] == "DIRECTOR"]})
        if again.graph != last.graph:
            from ..canon import diff_graphs
            problems.append({"graph_changed": diff_graphs(last.graph, again.graph or (), 4)})
        if before != after:
            problems.append({"outputs_rewritten": sorted(k for k in set(before) | set(after)
                                                         if before.get(k) != after.get(k))})
        if again.rc_class != "success" or not again.ok():
            problems.append({"rc": again.rc_class, "fault": again.fault, "error": again.error})
        if problems:
            acc.violation(f"C04|{fam}|noop|{'>'.join(labels)}",
                          {"family": fam, "edits": labels, "noop_rebuild": problems,
                           "exec": describe(again)}, rep)
        acc.outcomes.setdefault(h8([fam, "noop", bool(problems)]), 1)
        # (c) edit subsets of plain sources and rebuild: replay the history for each variant
        srcs = plain_sources(files)
        if len(labels) > spec.get("cone_depth", 1) or not srcs:
            return
        subsets = [c for r in range(1, min(len(srcs), 2) + 1) for c in itertools.combinations(srcs, r)]
        for subset in subsets:
            for kind in ("content", "touch", "mode"):
                w2, ol2 = hist.run_history(descs, CFG)
                try:
                    pre = ol2[-1]
                    if pre.rc_class != "success":
                        continue
                    for p in subset:
                        if kind == "content":
                            w2.write(p, files[p] + "more\n")
                        elif kind == "touch":
                            w2.touch(p)
                        else:
                            w2.chmod(p, 0o600)
                    post = hist.build(w2, desc, CFG)
                    acc.evaluations += len(ol2) + 1
                    acc.transitions += post.nev
                    allowed = cone(pre, set(subset))
                    extra = [s for s in post.started if s not in allowed]
                    # the cone is dynamic: a consumer of a step that was checked and SKIPPED (its
                    # output did not change) is outside it ("an output of a re-executed step")
                    extra += [s for s in post.started if s not in extra
                              and s not in dynamic_cone(pre, post, set(subset))]
                    if kind == "touch" and post.started:
                        extra = post.started
                    if post.started:
                        acc.nontrivial.add(h8([fam, labels, subset, kind]))
                    if extra or not post.ok():
                        acc.violation(
                            f"C04|{fam}|cone|{kind}|{'>'.join(labels)}|{','.join(subset)}",
                            {"family": fam, "edits": labels, "edited": subset, "kind": kind,
                             "executed_outside_cone": extra, "cone": sorted(allowed),
                             "exec": describe(post)}, {**rep, "subset": subset, "kind": kind})
                    acc.sample({"family": fam, "edits": labels, "edited": list(subset), "kind": kind,
                                "executed": post.started, "cone": sorted(allowed)})
                finally:
                    w2.destroy()

    nrun, nstates, trunc = hist.bfs(spec["start"], spec["depth"], hist.all_edits, visit, CFG,
                                    first=spec["first"])
    acc.count("histories", nrun)
    return acc


def replay(doc):
    import json

    print(json.dumps(doc.get("what"), indent=1, default=str)[:8000])
    return 0
