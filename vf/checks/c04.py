"""C04: rebuilding with nothing changed does nothing; edits rerun only their cone (history BFS)."""

import itertools
import os
import re

from .. import hist
from ..dirx import describe
from ..harness import SHEBANG
from ..runner import Acc, h8
from .c01 import CFG, starts
from .c01 import FAMILIES as C01_FAMILIES

# f_detfinish: a step that completed while detached and is re-created by its repaired creator
FAMILIES = [*C01_FAMILIES, "f_detfinish"]

LEVEL = "model_checking"
RULE = (
    "every successful end state reached by edit histories (as in C01) is followed by a restart "
    "with nothing changed, and by every non-empty subset of plain source files edited (content, "
    "touch only, mode) and a rebuild; non-trivial: a state reached after at least one edit, or a "
    "source edit that executed at least one command; schedule part: for dedicated projects the "
    "rebuild after every single source edit is explored under four base schedules, two job counts "
    "and every schedule with at most one deviation (thorough: two), every executed command must "
    "lie in the cone"
)
ASSUMPTIONS = [
    "no-op rebuilds are restarts here; the watch-mode variant is tied to restarts by C14",
    "cone reference is computed from the pre-edit graph (consumers, glob regexes, declared steps)",
]


def meta_of_outputs(world, sources):
    return {k: v for k, v in world.fs_state(with_meta=True).items() if k not in sources and v != "dir"}


def cone(obs, edited):
    """Steps that may legitimately execute after editing `edited` (labels)."""
    steps = {s for s, st in obs.db_steps.items() if not st["detached"]}
    in_cone = set()
    for s in steps:
        if any(p in edited for p, _ in obs.db_inputs.get(s, [])):
            in_cone.add(s)
        for rx in obs.db_nglobs.get(s, []):
            if any(re.compile(rx).fullmatch(p) for p in edited):
                in_cone.add(s)
    changed = True
    while changed:
        changed = False
        for s in steps - in_cone:
            # consumes an output of a step in the cone
            ins = {p for p, _ in obs.db_inputs.get(s, [])}
            if any(ins & set(obs.db_outputs.get(c, [])) for c in in_cone):
                in_cone.add(s)
                changed = True
                continue
            # was declared by a step in the cone
            if obs.db_creator.get(f"step:{s}", "").removeprefix("step:") in in_cone:
                in_cone.add(s)
                changed = True
    return in_cone


def dynamic_cone(pre, post, edited):
    """Steps that may execute given which steps actually executed: consumers of an edited file or
    of a changed glob match, and then only consumers of outputs of steps that did execute, and
    steps declared by steps that did execute."""
    steps = {s for s, st in post.db_steps.items()} | {s for s in pre.db_steps}
    executed = set(post.started)
    inputs = {s: {p for p, _ in post.db_inputs.get(s, [])} | {p for p, _ in pre.db_inputs.get(s, [])} for s in steps}
    outputs = {s: set(post.db_outputs.get(s, [])) | set(pre.db_outputs.get(s, [])) for s in steps}
    valid = set()
    for s in steps:
        if inputs[s] & edited:
            valid.add(s)
        for rx in pre.db_nglobs.get(s, []):
            if any(re.compile(rx).fullmatch(p) for p in edited):
                valid.add(s)
    changed = True
    while changed:
        changed = False
        for s in steps - valid:
            for e in valid & executed:
                creator = (post.db_creator.get(f"step:{s}") or pre.db_creator.get(f"step:{s}", "")).removeprefix("step:")
                if inputs[s] & outputs[e] or creator == e:
                    valid.add(s)
                    changed = True
                    break
    return valid


def plain_sources(files):
    return sorted(p for p, c in files.items() if not p.endswith("/") and c is not None
                  and not c.startswith(SHEBANG))


# projects of the schedule part: (family, knobs)
SCHED_PROJECTS = [
    ("f_latestatic", {}), ("f_latestatic", {"gap": 0}), ("f_subplan", {}), ("f_amend", {}),
    ("f_amend", {"extra": "built"}), ("f_nested", {}), ("f_chain", {}), ("f_prodcons", {}),
]
SCHED_POLICIES = ("thread", "fifo", "slowrep", "lifo")


def sched_jobs(tier):
    out = []
    for fam, knobs in SCHED_PROJECTS:
        files = hist.desc_files({"fam": fam, "knobs": knobs})
        for src in plain_sources(files):
            for policy in SCHED_POLICIES:
                for njob in (2, 4):
                    out.append({"part": "sched", "fam": fam, "knobs": knobs, "src": src, "policy": policy,
                                "njob": njob, "bound": 1 if tier == "quick" else 2})
    return out


def orphaned_amended_static(pre, post, step):
    """Known root cause: `step` amended a static file whose declaring plan re-ran in this build.
    While the plan runs its declarations are orphaned; a hash check of the consumer in that window
    sees an input missing from the digest, drops the amended information and runs the command."""
    produced = {p for outs in pre.db_outputs.values() for p in outs}
    for path, dyn in pre.db_inputs.get(step, []):
        creator = pre.db_creator.get(f"file:{path}", "").removeprefix("step:")
        if dyn and path not in produced and creator in post.started:
            return True
    return False


def run_sched(spec):
    from ..explore import explore

    acc = Acc()
    desc = {"fam": spec["fam"], "knobs": spec["knobs"]}
    cfg = {"njob": spec["njob"], "policy": spec["policy"]}
    files = hist.desc_files(desc)
    src = spec["src"]
    ref = {}

    def run(prefix):
        world, ol = hist.run_history([desc], cfg)
        try:
            ref["pre"] = ol[-1]
            if ol[-1].rc_class != "success" or not ol[-1].ok():
                raise RuntimeError(f"first build of {desc} under {cfg}: {ol[-1].rc_class} {ol[-1].fault} {ol[-1].error}")
            world.write(src, files[src] + "more\n")
            return hist.build(world, desc, cfg, prefix)
        finally:
            world.destroy()

    def visit(prefix, post):
        pre = ref["pre"]
        acc.evaluations += 1
        acc.transitions += post.nev
        acc.states.add(h8([post.raw, tuple(post.started)]))
        acc.outcomes.setdefault(h8([spec["fam"], tuple(post.started), post.rc_class]), 1)
        if post.started:
            acc.nontrivial.add(h8([spec["fam"], spec["knobs"], src, spec["policy"], spec["njob"], prefix]))
        allowed = dynamic_cone(pre, post, {src})
        extra = [s for s in post.started if s not in allowed]
        if post.rc_class != "success" or not post.ok():
            acc.violation(f"C04|sched|{spec['fam']}|{src}|rebuild-{post.rc_class}",
                          {"project": desc, "edited": src, "cfg": cfg, "prefix": list(prefix),
                           "exec": describe(post)}, {"check": "C04", **spec, "prefix": list(prefix)})
        elif extra:
            if all(orphaned_amended_static(pre, post, s) for s in extra):
                key = "C04|sched|amended-static-input-orphaned-while-its-declaring-plan-reruns"
            else:
                key = f"C04|sched|{spec['fam']}|{src}|{','.join(sorted(set(extra)))}"
            acc.violation(key, {"project": desc, "edited": src, "cfg": cfg, "prefix": list(prefix),
                                "executed_outside_cone": extra, "cone": sorted(allowed),
                                "exec": describe(post)}, {"check": "C04", **spec, "prefix": list(prefix)})
        if len(acc.samples) < 2 and post.started:
            acc.sample({"project": desc, "edited": src, "cfg": cfg, "prefix": list(prefix),
                        "executed": post.started, "cone": sorted(allowed)})

    n, trunc = explore(run, spec["bound"], visit)
    acc.count("schedules", n)
    return acc


def jobs(tier, seed):
    depth = 2 if tier == "quick" else 3
    out = sched_jobs(tier)
    for fam in FAMILIES:
        for start in starts(fam, tier):
            out.append({"start": start, "first": None, "depth": 0})
            for elabel, d in hist.all_edits(start):
                out.append({"start": start, "first": (elabel, d), "depth": depth})
    return out


def run_job(spec):
    if spec.get("part") == "sched":
        return run_sched(spec)
    acc = Acc()
    fam = spec["start"]["fam"]

    def visit(labels, descs, obs_list, world):
        last = obs_list[-1]
        acc.evaluations += len(obs_list)
        acc.transitions += sum(o.nev for o in obs_list)
        acc.states.add(h8([last.raw, sorted(last.fs.items())]))
        if len(obs_list) < len(descs) or last.rc_class != "success" or not last.ok():
            return
        if labels:
            acc.nontrivial.add(h8([fam, labels]))
        desc = descs[-1]
        files = hist.desc_files(desc)
        rep = {"check": "C04", "descs": descs, "labels": labels}
        # (a) restart with nothing changed
        before = meta_of_outputs(world, files)
        again = hist.build(world, desc, CFG)
        acc.evaluations += 1
        after = meta_of_outputs(world, files)
        problems = []
        if again.started:
            problems.append({"executed": again.started})
        if not any(r[0] == "DIRECTOR" and r[1].startswith("Ran 0 job") for r in again.reports):
            problems.append({"ran": [r[1] for r in again.reports if r[0] == "DIRECTOR"]})
        if again.graph != last.graph:
            from ..canon import diff_graphs
            problems.append({"graph_changed": diff_graphs(last.graph, again.graph or (), 4)})
        if before != after:
            problems.append({"outputs_rewritten": sorted(k for k in set(before) | set(after)
                                                         if before.get(k) != after.get(k))})
        if again.rc_class != "success" or not again.ok():
            problems.append({"rc": again.rc_class, "fault": again.fault, "error": again.error})
        if problems:
            acc.violation(f"C04|{fam}|noop|{'>'.join(labels)}",
                          {"family": fam, "edits": labels, "noop_rebuild": problems,
                           "exec": describe(again)}, rep)
        acc.outcomes.setdefault(h8([fam, "noop", bool(problems)]), 1)
        # (c) edit subsets of plain sources and rebuild: replay the history for each variant
        srcs = plain_sources(files)
        if len(labels) > spec.get("cone_depth", 1) or not srcs:
            return
        subsets = [c for r in range(1, min(len(srcs), 2) + 1) for c in itertools.combinations(srcs, r)]
        for subset in subsets:
            for kind in ("content", "touch", "mode"):
                w2, ol2 = hist.run_history(descs, CFG)
                try:
                    pre = ol2[-1]
                    if pre.rc_class != "success":
                        continue
                    for p in subset:
                        if kind == "content":
                            w2.write(p, files[p] + "more\n")
                        elif kind == "touch":
                            w2.touch(p)
                        else:
                            w2.chmod(p, 0o600)
                    post = hist.build(w2, desc, CFG)
                    acc.evaluations += len(ol2) + 1
                    acc.transitions += post.nev
                    allowed = cone(pre, set(subset))
                    extra = [s for s in post.started if s not in allowed]
                    # the cone is dynamic: a consumer of a step that was checked and SKIPPED (its
                    # output did not change) is outside it ("an output of a re-executed step")
                    extra += [s for s in post.started if s not in extra
                              and s not in dynamic_cone(pre, post, set(subset))]
                    if kind == "touch" and post.started:
                        extra = post.started
                    if post.started:
                        acc.nontrivial.add(h8([fam, labels, subset, kind]))
                    if extra or not post.ok():
                        acc.violation(
                            f"C04|{fam}|cone|{kind}|{'>'.join(labels)}|{','.join(subset)}",
                            {"family": fam, "edits": labels, "edited": subset, "kind": kind,
                             "executed_outside_cone": extra, "cone": sorted(allowed),
                             "exec": describe(post)}, {**rep, "subset": subset, "kind": kind})
                    acc.sample({"family": fam, "edits": labels, "edited": list(subset), "kind": kind,
                                "executed": post.started, "cone": sorted(allowed)})
                finally:
                    w2.destroy()

    nrun, nstates, trunc = hist.bfs(spec["start"], spec["depth"], hist.all_edits, visit, CFG,
                                    first=spec["first"])
    acc.count("histories", nrun)
    return acc


def replay(doc):
    import json

    print(json.dumps(doc.get("what"), indent=1, default=str)[:8000])
    rep = doc.get("replay") or {}
    if rep.get("part") == "sched":
        desc = {"fam": rep["fam"], "knobs": rep["knobs"]}
        cfg = {"njob": rep["njob"], "policy": rep["policy"]}
        files = hist.desc_files(desc)
        world, ol = hist.run_history([desc], cfg)
        world.write(rep["src"], files[rep["src"]] + "more\n")
        post = hist.build(world, desc, cfg, rep["prefix"])
        world.destroy()
        for r in post.reports:
            print("   ", r[0], r[1])
        print("executed:", post.started, "cone:", sorted(dynamic_cone(ol[-1], post, {rep["src"]})))
    return 0
