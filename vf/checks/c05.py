"""C05: a build killed at any point is completed correctly after restart (crash enumeration)."""

import json

from .. import canon, hist
from ..dirx import describe
from ..runner import Acc, h8
from .c01 import _files_only, _norm_graph

LEVEL = "fault_enumeration"
RULE = (
    "for each project phase (fresh build, rebuild after one plan edit with cleanup work) the "
    "director is killed at every snapshot point: after each committed transaction (startup, "
    "dispatch, requests, completions, cleanup), after each file action of a simulated step and "
    "after each file removal of the cleanup pass; the kill leaves the real database files and "
    "tree in place and a new director is started on them; crash points with identical on-disk "
    "state are restarted once; non-trivial: the kill happened while at least one step was "
    "RUNNING/CHECKING or while cleanup work was pending"
)
ASSUMPTIONS = [
    "process kill (not power loss): committed SQLite transactions are durable (synchronous=OFF "
    "loses nothing on a process kill); a kill inside a transaction equals the previous commit",
    "the killed execution and the restart follow the default schedule (thorough: killed execution "
    "with one deviation)",
]

PHASES = [
    ("chain:fresh", [{"fam": "f_chain", "knobs": {}}]),
    ("chain:retag", [{"fam": "f_chain", "knobs": {}}, {"fam": "f_chain", "knobs": {"a_tag": 2}}]),
    ("chain:rename", [{"fam": "f_chain", "knobs": {}}, {"fam": "f_chain", "knobs": {"b_out": "b2.txt"}}]),
    ("chain:dropb", [{"fam": "f_chain", "knobs": {}}, {"fam": "f_chain", "knobs": {"b": 0, "c": 0}}]),
    ("subplan:fresh", [{"fam": "f_subplan", "knobs": {}}]),
    ("subplan:drop", [{"fam": "f_subplan", "knobs": {}}, {"fam": "f_subplan", "knobs": {"sub": 0}}]),
    ("amend:fresh", [{"fam": "f_amend", "knobs": {"extra": "built"}}]),
    ("amend:tree", [{"fam": "f_amend", "knobs": {"extra": "tree"}}]),
    ("vol:fresh", [{"fam": "f_vol", "knobs": {}}]),
    ("vol:move", [{"fam": "f_vol", "knobs": {}}, {"fam": "f_vol", "knobs": {"outdir": "out2", "log": "none"}}]),
    ("vol:drop", [{"fam": "f_vol", "knobs": {"workdir": "wd"}}, {"fam": "f_vol", "knobs": {"workdir": "wd", "present": 0}}]),
    ("optional:unneeded", [{"fam": "f_optional", "knobs": {}}, {"fam": "f_optional", "knobs": {"u": 0}}]),
    ("glob:remove", [{"fam": "f_glob", "knobs": {}}, {"fam": "f_glob", "knobs": {"present": ("a",)}}]),
    ("partial", [{"fam": "f_prodcons", "knobs": {}}]),
    # a planning script that is deferred and runs again while a step it defined is still running
    ("deferplan", [{"fam": "f_deferplan", "knobs": {}}], {"njob": 4}),
]
CFG = {"njob": 2}
# base schedules of the killed execution: non-preemptive (a thread runs on while it can) and
# oldest-event-first (all runnable threads advance in turn, commands overlap as much as possible)
POLICIES = ("thread", "fifo")


def phase_cfg(spec_cfg):
    cfg = dict(CFG)
    cfg.update(spec_cfg or {})
    return cfg


def run_killed(descs, k, prefix=(), base=None):
    """Run the history; kill the last session at its k-th snapshot point (k=None: never)."""
    files = hist.desc_files(descs[0])
    world = hist.fresh_world(files, "c5")
    info = {"snaps": [], "killed": None}
    for i, desc in enumerate(descs):
        last = i == len(descs) - 1
        if i > 0:
            nf = hist.desc_files(desc)
            hist.sync(world, files, nf)
            files = nf
        cfg = phase_cfg(base)
        if not last:
            cfg.pop("policy", None)
        if last:
            def hook(sim, tag):
                n = sim.snap_count
                if k is not None and n == k:
                    con = sim.db._con
                    states = {}
                    if con is not None:
                        # read the committed state through a second connection-free path: the
                        # same connection, no transaction is open at a snapshot point
                        for label, st in con.execute(
                            "SELECT label, state FROM node JOIN step ON step.node = node.i"
                        ):
                            states[label] = st
                    info["killed"] = {"n": n, "tag": tag, "steps": states,
                                      "running_cmds": sorted(p.label for p in sim.running.values()),
                                      "to_be_deleted": sorted(sim.handler.workflow.to_be_deleted)
                                      if sim.handler else []}
                    return True
                if k is None:
                    info["snaps"].append(tag)
                return False

            cfg["snapshot_hook"] = hook
        obs = hist.build(world, desc, cfg, prefix if last else ())
        info["obs"] = obs
    return world, info


def jobs(tier, seed):
    out = []
    for phase in PHASES:
        name, descs = phase[0], phase[1]
        for policy in POLICIES:
            base = dict(phase[2] if len(phase) > 2 else {})
            base["policy"] = policy
            world, info = run_killed(descs, None, (), base)
            world.destroy()
            if info["obs"].rc_class != "success":
                # this base schedule does not complete the project (deferred-creator findings):
                # there is no uninterrupted reference to compare a restart with
                continue
            n = len(info["snaps"])
            chunk = 12
            for lo in range(1, n + 1, chunk):
                out.append({"name": f"{name}/{policy}", "descs": descs, "base": base,
                            "ks": list(range(lo, min(n, lo + chunk - 1) + 1)), "prefix": []})
            if tier == "thorough" and policy == "thread":
                # every execution with one deviation from the base schedule, killed at each of
                # its snapshot points (the points are counted inside the job)
                from ..explore import children

                for kid in children(info["obs"].points, 0, 0, 1):
                    out.append({"name": f"{name}/{policy}+1", "descs": descs, "base": base,
                                "ks": None, "prefix": kid})
    return out


def reference(descs, base=None, prefix=()):
    """The uninterrupted execution with the same schedule as the killed one."""
    key = json.dumps([descs, base, list(prefix)], sort_keys=True, default=str)
    if key not in _REF:
        world, info = run_killed(descs, None, prefix, base)
        # a second, idle restart settles anything the first run leaves for "next time"
        _REF[key] = info["obs"]
        world.destroy()
    return _REF[key]


_REF = {}


def run_job(spec):
    acc = Acc()
    name, descs = spec["name"], spec["descs"]
    base = spec.get("base")
    rcfg = phase_cfg(base)
    rcfg.pop("policy", None)
    ref = reference(descs, base, spec["prefix"])
    if ref.rc_class != "success":
        if spec["prefix"]:
            # this schedule does not complete the project even without a kill (C02's subject)
            acc.count("schedules_without_successful_reference")
            return acc
        acc.violation(f"C05|{name}|reference-not-successful", {"rc": ref.rc_class}, None)
        return acc
    seen = set()
    ks = spec["ks"]
    if ks is None:
        world, info = run_killed(descs, None, spec["prefix"], base)
        world.destroy()
        ks = range(1, len(info["snaps"]) + 1)
    for k in ks:
        world, info = run_killed(descs, k, spec["prefix"], base)
        try:
            killed = info["killed"]
            if killed is None:
                continue
            disk = h8([sorted(world.fs_state(with_meta=True).items()), _db_bytes(world)])
            acc.evaluations += 1
            acc.transitions += info["obs"].nev
            if disk in seen:
                continue
            seen.add(disk)
            acc.states.add(disk)
            busy = [s for s, st in killed["steps"].items() if st in (22, 25)]
            if busy or killed["to_be_deleted"] or killed["tag"] == "remove":
                acc.nontrivial.add(h8([name, k]))
            restart = hist.build(world, descs[-1], rcfg)
            acc.evaluations += 1
            acc.transitions += restart.nev
            rep = {"check": "C05", "name": name, "descs": descs, "k": k, "prefix": spec["prefix"],
                   "base": base}
            problems = []
            if not restart.ok():
                problems.append(("restart-raised", {"fault": restart.fault, "error": restart.error}))
            errs = [r[1] for r in restart.reports if r[0] == "ERROR"]
            if errs:
                problems.append(("restart-error-report", errs[:3]))
            if restart.ok() and restart.rc_class != "success":
                problems.append(("restart-incomplete", {"rc": restart.rc_class,
                                                        "warnings": [r[1] for r in restart.reports if r[0] == "WARNING"]}))
            if restart.ok() and restart.rc_class == "success":
                a, b = _files_only(restart.fs), _files_only(ref.fs)
                if a != b:
                    left = sorted(k2 for k2 in a if k2 not in b)
                    kind = "leftover-file" if left and all(a.get(x) == b.get(x) for x in b) else "files-differ"
                    problems.append((kind, {x: (a.get(x), b.get(x)) for x in sorted(set(a) | set(b))
                                            if a.get(x) != b.get(x)}))
                ga, gb = _norm_graph(restart.attached), _norm_graph(ref.attached)
                if ga != gb:
                    diff = canon.diff_graphs(ga, gb, 5)
                    only_inp_digest = all(
                        isinstance(d, dict) and d.get("a") and d.get("b")
                        and [x for x in d["a"] if "inp_digest" not in x]
                        == [x for x in d["b"] if "inp_digest" not in x]
                        for d in canon.diff_graphs(ga, gb, 1000))
                    problems.append(("inp-digest-differs" if only_inp_digest else "graph-differs", diff))
                da = {x for x, v in restart.fs.items() if v == "dir"}
                db_ = {x for x, v in ref.fs.items() if v == "dir"}
                if da - db_:
                    problems.append(("leftover-dir", sorted(da - db_)))
            # a step whose command was running at the kill must run again before it can be
            # considered done: its first START/SKIP report of the restart must be a START
            # (a later SKIP of the freshly rerun step is an ordinary re-validation)
            first = {}
            for r in restart.reports:
                if r[0] in ("START", "SKIP"):
                    first.setdefault(r[1], r[0])
            for label in killed["running_cmds"]:
                if first.get(label) == "SKIP":
                    problems.append(("interrupted-step-skipped", label))
            for kind, detail in problems:
                key = f"C05|{name}|{kind}|{killed['tag']}"
                if kind == "inp-digest-differs" and spec["prefix"]:
                    # states, relations and files agree; only the stored input digest of a step
                    # differs, and it already differs between two uninterrupted schedules of the
                    # same build (known finding of C02: an input that is OUTDATED when its consumer
                    # completes is left out of the digest): the restart follows another schedule
                    # than the tail of the killed execution
                    key = "C05|inp-digest-depends-on-schedule"
                if kind in ("leftover-file", "leftover-dir"):
                    left = set(detail) if isinstance(detail, (list, dict)) else set()
                    pend = {p.rstrip("/") for p in killed["to_be_deleted"]}
                    parents = set()
                    for p in pend:
                        while "/" in p:
                            p = p.rsplit("/", 1)[0]
                            parents.add(p)
                    if left and {x.rstrip("/") for x in left} <= pend | parents:
                        # one call site: killed between the commit that forgets the nodes and the
                        # removal of the files queued in memory (Workflow.to_be_deleted)
                        key = f"C05|pending-cleanup-lost|{kind}"
                acc.violation(key,
                              {"phase": name, "kill_point": killed["n"], "after": killed["tag"],
                               "running": killed["running_cmds"], "pending_cleanup": killed["to_be_deleted"],
                               "problem": kind, "detail": detail, "restart": describe(restart, 40)}, rep)
            # the same crash image restarted under the oldest-event-first schedule, where the
            # steps that were interrupted advance side by side (a product of an interrupted
            # planning script is dispatched next to it and re-declared while it runs)
            if busy and not problems:
                world2, info2 = run_killed(descs, k, spec["prefix"], base)
                try:
                    if info2["killed"] is not None:
                        r2 = hist.build(world2, descs[-1], {**rcfg, "policy": "fifo"})
                        acc.evaluations += 1
                        acc.transitions += r2.nev
                        bad = None
                        if not r2.ok():
                            bad = ("restart-raised", {"fault": r2.fault, "error": r2.error})
                        elif [r for r in r2.reports if r[0] == "ERROR"]:
                            bad = ("restart-error-report", [r[1] for r in r2.reports if r[0] == "ERROR"][:3])
                        elif r2.rc_class != "success":
                            bad = ("restart-incomplete", {"rc": r2.rc_class})
                        elif _files_only(r2.fs) != _files_only(ref.fs):
                            a, b = _files_only(r2.fs), _files_only(ref.fs)
                            bad = ("files-differ", {x: (a.get(x), b.get(x)) for x in sorted(set(a) | set(b))
                                                    if a.get(x) != b.get(x)})
                        if bad:
                            acc.violation(f"C05|{name}|{bad[0]}|{killed['tag']}|restart-fifo",
                                          {"phase": name, "kill_point": killed["n"], "after": killed["tag"],
                                           "running": killed["running_cmds"], "problem": bad[0], "detail": bad[1],
                                           "restart_policy": "fifo", "restart": describe(r2, 40)}, rep)
                finally:
                    world2.destroy()
            acc.outcomes.setdefault(h8([name, restart.rc_class, bool(problems)]), 1)
            acc.sample({"phase": name, "kill_point": killed["n"], "after": killed["tag"],
                        "busy_steps": busy, "restart_started": restart.started})
        finally:
            world.destroy()
    return acc


def _db_bytes(world):
    import hashlib
    import os

    h = hashlib.sha256()
    for fn in ("graph.db", "graph.db-wal"):
        p = os.path.join(world.root, ".stepup", fn)
        if os.path.exists(p):
            with open(p, "rb") as fh:
                h.update(fh.read())
    return h.hexdigest()


def replay(doc):
    print(json.dumps(doc.get("what"), indent=1, default=str)[:8000])
    rep = doc.get("replay") or {}
    if "k" in rep:
        world, info = run_killed(rep["descs"], rep["k"], rep.get("prefix", ()), rep.get("base"))
        print("killed:", info["killed"])
        rcfg = phase_cfg(rep.get("base"))
        rcfg.pop("policy", None)
        restart = hist.build(world, rep["descs"][-1], rcfg)
        for r in restart.reports:
            print("   ", r[0], r[1])
        print(restart.graph_text)
        world.destroy()
    return 0
