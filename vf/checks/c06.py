"""C06: cleaning never destroys what StepUp does not own (history BFS + removal monitor)."""

import argparse
import copy
import hashlib
import os

from path import Path

from .. import hist
from ..dirx import describe
from ..harness import SHEBANG
from ..runner import Acc, h8

LEVEL = "model_checking"
RULE = (
    "breadth-first over histories of plan edits and user actions on outputs (overwrite, replace by a "
    "directory, delete, adopt as static, drop a foreign file next to it), crossed with clean / "
    "no-clean / targets / keep-going / a failing step; every remove and rmdir issued by the "
    "director's cleanup or by `stepup clean` (asked from the root or from outside the project) is intercepted before it executes and judged; the "
    "rebuild after every single plan edit is also drained at every quiescent point (one "
    "deviation) and must then remove nothing; non-trivial: at least one removal was attempted, or "
    "a build was drained"
)
ASSUMPTIONS = [
    "removals are observed at path.Path.remove/remove_p/rmdir, the only calls the code uses",
    "ownership is tracked from every committed graph: a path is an output once any commit had it "
    "in the OUTPUT or VOLATILE role",
]

FAMILIES = ["f_vol", "f_chain", "f_optional", "f_glob", "f_subplan", "f_redefine"]
CONFIGS = {
    "clean": {"njob": 2},
    "noclean": {"njob": 2, "do_clean": False},
    "keepgoing": {"njob": 2, "keep_going": True},
}
TARGETS = {"f_chain": ["a.txt"], "f_vol": ["out/deep/o.txt"], "f_optional": ["o1.txt"]}

REMOVALS = []
ROOT = [None]


def _wrap(op, orig):
    def wrapper(self, *a, **k):
        root = ROOT[0]
        if root is not None:
            ap = os.path.abspath(str(self))
            rel = os.path.relpath(ap, root)
            if not rel.startswith("..") and rel != ".stepup" and not rel.startswith(".stepup/"):
                rec = {"op": op, "path": rel, "exists": os.path.lexists(ap)}
                if os.path.isdir(ap):
                    rec["isdir"] = True
                    rec["entries"] = sorted(os.listdir(ap))
                elif os.path.isfile(ap):
                    with open(ap, "rb") as fh:
                        rec["digest"] = hashlib.sha256(fh.read()).hexdigest()
                REMOVALS.append(rec)
                try:
                    return orig(self, *a, **k)
                finally:
                    # judged by effect: an attempt that removed nothing destroyed nothing
                    rec["removed"] = rec["exists"] and not os.path.lexists(ap)
        return orig(self, *a, **k)

    return wrapper


PATCHES = [(Path, name, _wrap(name, getattr(Path, name))) for name in ("remove", "remove_p", "rmdir", "rmdir_p", "rmtree", "rmtree_p", "unlink", "unlink_p")]


class Tracker:
    """What every committed graph said about ownership (fed by the commit hook)."""

    def __init__(self):
        self.ever_output = set()
        self.role = {}
        self.recorded = {}
        self.workdirs = set()

    def on_commit(self, sim, db):
        con = db._con
        for label, state, hjs in con.execute(
            "SELECT label, state, hash FROM node JOIN file ON file.node = node.i"
        ):
            if state in (15, 16, 17, 18):
                self.ever_output.add(label)
                self.role[label] = "vol" if state == 18 else "out"
            elif state in (12, 13, 14):
                self.role[label] = "static"
            if hjs is not None and state in (16, 17):
                from stepup.core.hash import FileHash

                self.recorded[label] = FileHash.from_json(hjs).digest.hex()
        for (label,) in con.execute("SELECT label FROM node WHERE kind = 'step'"):
            if "  # wd=" in label:
                self.workdirs.add(os.path.normpath(label.split("  # wd=")[1]))


def user_edits(desc, world_files_hint=None):
    """User actions on the outputs the family is known to produce."""
    outs = {
        "f_vol": ["out/deep/o.txt", "out/log.txt"],
        "f_chain": ["a.txt", "b.txt", "c.txt"],
        "f_optional": ["o1.txt", "out/o2.txt", "u.txt"],
        "f_glob": ["out/a.out"],
        "f_subplan": ["sub/out/s.txt"],
        "f_redefine": ["r.txt"],
    }[desc["fam"]]
    base = {k: v for k, v in desc.items() if k != "act"}
    for path in outs:
        for action in ("overwrite", "to_dir", "delete"):
            d = copy.deepcopy(base)
            d["act"] = [(action, path)]
            yield (f"user:{action} {path}", d)
    d = copy.deepcopy(base)
    first_dir = os.path.dirname(outs[0]) or "."
    d["act"] = [("foreign", os.path.join(first_dir, "foreign.txt"))]
    yield (f"user:foreign {first_dir}", d)
    if desc["fam"] == "f_chain":
        # the user overwrites an output in a build that fails elsewhere, so the output's step is
        # hash-checked but never gets to run again; later cleanups must still see the user's content
        for path in ("c.txt", "a.txt"):
            d = copy.deepcopy(base)
            d.setdefault("knobs", {})["f"] = 1
            d["act"] = [("overwrite", path)]
            yield (f"user:overwrite {path} while another step fails", d)
        d = copy.deepcopy(base)
        d.setdefault("knobs", {}).update({"b": 0, "c": 0, "b_static": 1})
        yield ("adopt b.txt as static", d)
        d = copy.deepcopy(base)
        d.setdefault("knobs", {})["c"] = 2
        yield ("c fails", d)
        d = copy.deepcopy(base)
        d.setdefault("knobs", {}).update({"b": 0, "c": 0, "src_exists": 1})
        yield ("restore src, drop B and C", d)


def edits(desc):
    yield from hist.knob_edits(desc)
    yield from user_edits(desc)


def sources_of(desc):
    files = hist.desc_files(desc)
    srcs = {p for p, c in files.items() if c is not None and not p.endswith("/")}
    for action, path in desc.get("act", ()):
        if action in ("overwrite",):
            pass
        if action == "foreign":
            srcs.add(path)
        if action == "to_dir":
            srcs.add(path + "/inside.txt")
    return srcs, {p.rstrip("/") for p in files if p.endswith("/")}


def declared_static(desc):
    """What the current plans declare static, read from the programs of the script files
    (independent of what the director made of it): files, trees and patterns."""
    import fnmatch  # noqa: F401
    import json

    files, trees, patterns = set(), set(), set()

    def walk(actions, base):
        for a in actions:
            if a[0] == "static":
                for arg in a[1:]:
                    full = os.path.normpath(os.path.join(base, arg))
                    if arg.endswith("/"):
                        trees.add(full)
                    elif any(ch in arg for ch in "*?["):
                        patterns.add(full)
                    else:
                        files.add(full)
            elif a[0] == "hold":
                walk(a[1], base)
            elif a[0] == "glob" and len(a) > 3:
                walk(a[3], base)

    for path, content in hist.desc_files(desc).items():
        if content is None or path.endswith("/") or not content.startswith(SHEBANG):
            continue
        lines = content.split("\n")
        if len(lines) > 1 and lines[1].startswith("# "):
            try:
                walk(json.loads(lines[1][2:])["prog"], os.path.dirname(path))
            except ValueError:
                pass
    return files, trees, patterns


def under_declared_static(path, decl):
    import fnmatch

    files, trees, patterns = decl
    return (path in files or any(path.startswith(t + "/") for t in trees)
            or any(fnmatch.fnmatchcase(path, p) for p in patterns))


def judge(removals, tracker, desc, may_clean, unsafe=False, user_paths=(), writes=None):
    """Return (kind, path, message) for every removal that C06 forbids."""
    return [(k, _path_of(m), m) for k, m in _judge(removals, tracker, desc, may_clean, unsafe, user_paths, writes)]


def _path_of(msg):
    return msg.split()[1].rstrip(":,")


def _judge(removals, tracker, desc, may_clean, unsafe=False, user_paths=(), writes=None):
    out = []
    # who wrote the content that is on disk now: the harness' own record of every write (steps
    # and user), independent of what the database says was "recorded"
    last_write = {}
    for seq, rel, digest, who in (writes or ()):
        last_write[rel] = (digest, who)
    srcs, src_dirs = sources_of(desc)
    srcs |= set(user_paths)
    decl = declared_static(desc)
    for r in removals:
        path = r["path"]
        if not r.get("removed"):
            continue
        if not may_clean:
            out.append(("cleaning-not-allowed", f"{r['op']} {path} although automatic cleaning must be skipped"))
            continue
        if r.get("isdir"):
            if r["entries"]:
                out.append(("nonempty-dir", f"rmdir {path} while it contains {r['entries']}"))
            owned = any(o == path or o.startswith(path + "/") for o in tracker.ever_output) or any(
                w == path or w.startswith(path + "/") for w in tracker.workdirs)
            if not owned:
                out.append(("foreign-dir", f"rmdir {path}: no step ever declared an output or a working "
                            f"directory in it"))
            continue
        if path in srcs or tracker.role.get(path) == "static":
            out.append(("static-file", f"{r['op']} {path}, a user-provided file"))
            continue
        if under_declared_static(path, decl):
            # the plans of this build declare the path static (directly, through a tree or a
            # pattern): the user has adopted it, whatever role it had before
            out.append(("declared-static", f"{r['op']} {path}, which the current plan declares static"))
            continue
        if path not in tracker.ever_output:
            out.append(("never-output", f"{r['op']} {path}, which no step ever declared as output"))
            continue
        if tracker.role.get(path) == "out" and not unsafe:
            lw = last_write.get(path)
            if lw is not None and lw[1] == "user" and lw[0] == r.get("digest"):
                out.append(("modified-output", f"{r['op']} {path} whose content was written by the user after the "
                            f"last step wrote it (whatever hash the database holds now)"))
                continue
            rec = tracker.recorded.get(path)
            if rec is not None and r.get("digest") != rec:
                out.append(("modified-output", f"{r['op']} {path} whose content {str(r.get('digest'))[:8]} "
                            f"differs from the recorded {rec[:8]}"))
    return out


def run_hist(descs, cfgname, targets=None, last_prefix=(), last_extra=None):
    """Run a history with the removal monitor; returns (world, obs_list, tracker, per-build removals)."""
    tracker = Tracker()
    cfg = dict(CONFIGS[cfgname])
    if targets:
        cfg["targets"] = targets
    cfg["commit_hook"] = tracker.on_commit
    cfg["extra_patches"] = PATCHES
    files = hist.desc_files(descs[0])
    world = hist.fresh_world(files, "c6")
    ROOT[0] = world.root
    obs_list, removed = [], []
    for i, desc in enumerate(descs):
        if i > 0:
            nf = hist.desc_files(desc)
            hist.sync(world, files, nf)
            files = nf
            for action, path in desc.get("act", ()):
                hist.user_action(world, action, path)
        del REMOVALS[:]
        if i == len(descs) - 1 and (last_prefix or last_extra):
            obs = hist.build(world, desc, {**cfg, **(last_extra or {})}, last_prefix)
        else:
            obs = hist.build(world, desc, cfg)
        obs_list.append(obs)
        removed.append(list(REMOVALS))
        if obs.fault or obs.error:
            break
    return world, obs_list, tracker, removed


def jobs(tier, seed):
    depth = 2 if tier == "quick" else 3
    out = []
    for fam in FAMILIES:
        start = {"fam": fam, "knobs": {}}
        for cfgname in CONFIGS:
            for elabel, d in edits(start):
                out.append({"start": start, "first": (elabel, d), "depth": depth, "cfg": cfgname,
                            "targets": None, "clean_tool": cfgname == "clean"})
        if fam == "f_chain":
            # seed: the plan drops B while C still needs b.txt, so the build stays incomplete,
            # nothing is cleaned and b.txt stays behind as a detached node that no startup scan
            # looks at; then the user edits it; any further edit may complete the build
            dropped = {"fam": fam, "knobs": {"b": 0}}
            for action in ("overwrite", "to_dir", "delete"):
                edited = {**copy.deepcopy(dropped), "act": [(action, "b.txt")]}
                out.append({"start": start, "first": ("b=0", dropped), "depth": 2,
                            "cfg": "clean", "targets": None, "clean_tool": True,
                            "then": (f"user:{action} b.txt", edited)})
        if fam in TARGETS:
            for elabel, d in hist.knob_edits(start):
                out.append({"start": start, "first": (elabel, d), "depth": 1, "cfg": "clean",
                            "targets": TARGETS[fam], "clean_tool": False})
        # the user overwrites a queued output while the cleanup pass of the rebuild runs
        if fam == "f_chain":
            dropped = {"fam": fam, "knobs": {"b": 0, "c": 0}}
            out.append({"part": "race", "start": start, "first": ("b=0,c=0", dropped), "paths": ["b.txt", "c.txt"]})
        if fam == "f_vol":
            dropped = {"fam": fam, "knobs": {"present": 0}}
            out.append({"part": "race", "start": start, "first": ("present=0", dropped),
                        "paths": ["out/deep/o.txt", "out/log.txt"]})
        # the rebuild after each single plan edit, drained at any point
        for elabel, d in hist.knob_edits(start):
            out.append({"part": "drain", "start": start, "first": (elabel, d), "cfg": "clean"})
    return out


CLEAN_ARGS = [
    {"paths": ["."], "commit": True, "all": False, "safe": True},
    {"paths": ["."], "commit": True, "all": True, "safe": True},
    {"paths": ["."], "commit": True, "all": True, "safe": False},
    {"paths": ["out"], "commit": True, "all": True, "safe": True},
    {"paths": ["src.txt"], "commit": True, "all": True, "safe": True},
    {"paths": ["."], "commit": False, "all": True, "safe": False},
    # the same selections asked from a directory outside the project (STEPUP_ROOT points back)
    {"paths": ["."], "commit": True, "all": True, "safe": True, "cwd": "elsewhere"},
    {"paths": ["out"], "commit": True, "all": True, "safe": True, "cwd": "elsewhere"},
]


def run_clean_tool(world, args):
    """`stepup clean` on the tree of `world`. args["cwd"] (optional) is where the user stands:
    the project root (default: the selection runs on a connection opened here), or "elsewhere",
    a directory outside the project with STEPUP_ROOT pointing back at it; then the tool's own
    entry point translates the paths and opens the database, as the command line does."""
    from stepup.core import clean as su_clean
    from stepup.core.sqlite3 import connect

    saved = os.getcwd()
    elsewhere = args.get("cwd") == "elsewhere"
    saved_env = os.environ.pop("STEPUP_ROOT", None), os.environ.pop("HERE", None)
    applied = [(obj, name, getattr(obj, name)) for obj, name, _ in PATCHES]
    for obj, name, value in PATCHES:
        setattr(obj, name, value)
    import contextlib
    import io

    con = None
    cwd = world.root
    try:
        flags = {k: v for k, v in args.items() if k not in ("cwd",)}
        if elsewhere:
            cwd = world.root.rstrip("/") + "-elsewhere"
            os.makedirs(cwd, exist_ok=True)
            os.chdir(cwd)
            os.environ["STEPUP_ROOT"] = os.path.relpath(world.root, cwd)
            paths = [Path(os.path.relpath(os.path.join(world.root, p), cwd)) for p in args["paths"]]
            ns = argparse.Namespace(**{**flags, "paths": paths})
            with contextlib.redirect_stdout(io.StringIO()):
                su_clean.clean_tool(ns)
        else:
            os.chdir(world.root)
            con = connect(".stepup/graph.db", read_only=True)
            ns = argparse.Namespace(**{**flags, "paths": [Path(p) for p in args["paths"]]})
            tr_paths = {Path(p).normpath() for p in args["paths"]}
            with contextlib.redirect_stdout(io.StringIO()):
                su_clean.clean(con, tr_paths, ns)
    finally:
        if con is not None:
            con.close()
        for obj, name, value in applied:
            setattr(obj, name, value)
        os.chdir(saved)
        os.environ.pop("STEPUP_ROOT", None)
        if elsewhere:
            import shutil

            shutil.rmtree(cwd, ignore_errors=True)
        for k, v in zip(("STEPUP_ROOT", "HERE"), saved_env):
            if v is not None:
                os.environ[k] = v


def drain_events(sim):
    from ..harness import EnvEvent

    if sim.handler is None or "drained" in sim.flags or not sim.running:
        return []

    def fn(s):
        s.flags.add("drained")
        s.loop.create_task(s.handler.drain())

    return [EnvEvent("drain", fn)]


def run_drain(spec, acc):
    """The rebuild after one plan edit is drained (`stepup drain`) at every quiescent point at
    which a command runs, and explored with one deviation: a build that ends drained, failed or
    pending is incomplete and its cleanup pass must remove nothing."""
    from ..explore import explore

    fam = spec["start"]["fam"]
    descs = [spec["start"], spec["first"][1]]

    def run(prefix):
        world, obs_list, tracker, removed = run_hist(descs, spec["cfg"], None, prefix,
                                                     {"env_events": drain_events})
        try:
            last = obs_list[-1]
            last.removed = removed[-1] if len(removed) == len(descs) else []
            last.tracker = tracker
            return last
        finally:
            world.destroy()
            ROOT[0] = None

    def visit(prefix, last):
        acc.evaluations += 1
        acc.transitions += last.nev
        if last.rc is None:
            return
        incomplete = bool(last.rc.value & ~8)
        acc.states.add(h8([fam, spec["first"][0], last.trace]))
        if "drained" in last.flags:
            acc.nontrivial.add(h8([fam, spec["first"][0], last.choices]))
            acc.count("drained_builds")
        if incomplete:
            gone = [r for r in last.removed if r.get("removed")]
            if gone:
                acc.violation(f"C06|{fam}|cleanup-after-incomplete-build|{'drained' if last.draining else last.rc_class}",
                              {"family": fam, "edit": spec["first"][0], "rc": last.rc_class,
                               "drained": bool(last.draining), "removed": gone[:6], "exec": describe(last, 40)},
                              {"check": "C06", "descs": descs, "prefix": last.choices})
        acc.outcomes.setdefault(h8([fam, "drain", last.rc_class, bool(last.removed)]), 1)

    explore(run, 1, visit)


def race_events(paths):
    def env(sim):
        from ..harness import EnvEvent

        if sim.handler is None or "raced" in sim.flags:
            return []
        # only once the build is over and the cleanup pass has been announced
        if not any(r[0] == "DIRECTOR" and r[1].startswith("Trying to remove") for r in sim.reports):
            return []
        evs = []
        for path in paths:
            if sim.world.exists(path):
                def fn(s, path=path):
                    s.flags.add("raced")
                    s.ext_write(path, f"the user's own text, written at event {s.nev}\n")
                evs.append(EnvEvent(f"user overwrites {path}", fn))
        return evs
    return env


def run_race(spec, acc):
    """While the cleanup pass of a build runs (several files queued), the user overwrites one of
    the queued outputs at any quiescent point (one deviation). What the user wrote must survive:
    either the file is kept, or it had already been removed before the user wrote."""
    from ..explore import explore

    fam = spec["start"]["fam"]
    descs = [spec["start"], spec["first"][1]]

    def run(prefix):
        world, obs_list, tracker, removed = run_hist(descs, "clean", None, prefix,
                                                     {"env_events": race_events(spec["paths"])})
        try:
            last = obs_list[-1]
            last.removed = removed[-1] if len(removed) == len(descs) else []
            last.writes = list(world.writes)
            last.tracker = tracker
            return last
        finally:
            world.destroy()
            ROOT[0] = None

    def visit(prefix, last):
        acc.evaluations += 1
        acc.transitions += last.nev
        acc.states.add(h8([fam, "race", last.trace]))
        if "raced" not in last.flags:
            return
        acc.nontrivial.add(h8([fam, "race", last.choices]))
        acc.count("overwrites_during_cleanup")
        gone = [r for r in last.removed if r.get("removed") and not r.get("isdir")]
        for kind, rpath, msg in judge(gone, last.tracker, descs[-1], True, writes=last.writes):
            acc.violation(f"C06|{fam}|race-{kind}|{rpath}",
                          {"family": fam, "edit": spec["first"][0], "kind": kind, "what": msg,
                           "exec": describe(last, 40)}, {"check": "C06", "descs": descs, "prefix": last.choices})
        acc.outcomes.setdefault(h8([fam, "race", bool(gone)]), 1)

    explore(run, 1, visit)


def run_job(spec):
    if spec.get("part") == "race":
        acc = Acc()
        run_race(spec, acc)
        return acc
    if spec.get("part") == "drain":
        acc = Acc()
        run_drain(spec, acc)
        return acc
    acc = Acc()
    fam = spec["start"]["fam"]
    cfgname = spec["cfg"]
    seen = set()
    frontier = [([spec["first"][0]], [spec["start"], spec["first"][1]])]
    if spec.get("then"):
        frontier = [([spec["first"][0], spec["then"][0]], [spec["start"], spec["first"][1], spec["then"][1]])]
    for level in range(spec["depth"]):
        nxt = []
        for labels, descs in frontier:
            world, obs_list, tracker, removed = run_hist(descs, cfgname, spec["targets"])
            try:
                last = obs_list[-1]
                acc.evaluations += len(obs_list)
                acc.transitions += sum(o.nev for o in obs_list)
                if len(obs_list) < len(descs) or last.raw is None:
                    if last.error or last.fault:
                        acc.violation(f"C06|{fam}|fault|{hist.history_label(descs)}",
                                      {"edits": labels, "exec": describe(last)}, {"descs": descs})
                    continue
                key = hist.state_key(world, last, descs[-1])
                if key in seen:
                    continue
                seen.add(key)
                acc.states.add(key)
                rep = {"check": "C06", "descs": descs, "cfg": cfgname, "targets": spec["targets"]}
                user_paths = set()
                for d in descs:
                    for action, path in d.get("act", ()):
                        if action in ("overwrite", "foreign"):
                            user_paths.add(path) if action == "foreign" else None
                for i, (obs, rem) in enumerate(zip(obs_list, removed)):
                    if i < len(obs_list) - 1:
                        continue
                    masked = (obs.rc.value & ~8) if obs.rc is not None else 1
                    may_clean = (masked == 0 and not spec["targets"] and cfgname != "noclean")
                    rem = [r for r in rem if r.get("removed")] if may_clean else rem
                    if rem:
                        acc.nontrivial.add(h8([fam, cfgname, labels]))
                        acc.count("removals", len(rem))
                    for kind, rpath, msg in judge(rem, tracker, descs[i], may_clean, user_paths=user_paths,
                                                  writes=world.writes):
                        acc.violation(f"C06|{fam}|{kind}|{rpath}",
                                      {"family": fam, "cfg": cfgname, "targets": spec["targets"],
                                       "edits": labels, "kind": kind, "what": msg,
                                       "removals": rem[:10]}, rep)
                    if rem:
                        acc.sample({"family": fam, "cfg": cfgname, "edits": labels,
                                    "removed": [(r["op"], r["path"]) for r in rem][:8]})
                acc.outcomes.setdefault(h8([fam, cfgname, last.rc_class, len(removed[-1])]), 1)
                # stepup clean on this state (each invocation on its own replay of the history)
                if spec["clean_tool"] and level == 0:
                    for args in CLEAN_ARGS:
                        w2, ol2, tr2, _ = run_hist(descs, cfgname, spec["targets"])
                        try:
                            if len(ol2) < len(descs):
                                continue
                            ROOT[0] = w2.root
                            del REMOVALS[:]
                            try:
                                run_clean_tool(w2, args)
                            except Exception as exc:  # noqa: BLE001
                                # a crash of the tool destroys nothing by itself; what it removed
                                # before raising is still judged below
                                acc.count(f"clean_tool_raised_{type(exc).__name__}")
                            rem = list(REMOVALS)
                            acc.evaluations += 1
                            if rem:
                                acc.nontrivial.add(h8([fam, "tool", labels, args]))
                                acc.count("tool_removals", len(rem))
                            if not args["commit"] and rem:
                                acc.violation(f"C06|{fam}|dry-run-removed", {"args": args, "removed": rem[:5]}, rep)
                            for kind, rpath, msg in judge(rem, tr2, descs[-1], True, unsafe=not args["safe"],
                                                          user_paths=user_paths, writes=w2.writes):
                                acc.violation(
                                    f"C06|{fam}|tool-{kind}|{rpath}|all={args['all']}|safe={args['safe']}",
                                    {"family": fam, "clean_args": args, "edits": labels, "kind": kind,
                                     "what": msg, "removals": rem[:10]}, {**rep, "clean_args": args})
                        finally:
                            w2.destroy()
                if level + 1 < spec["depth"]:
                    for elabel, d in edits(descs[-1]):
                        nxt.append(([*labels, elabel], [*descs, d]))
            finally:
                ROOT[0] = None
                world.destroy()
        frontier = nxt
    return acc


def replay(doc):
    import json

    print(json.dumps(doc.get("what"), indent=1, default=str)[:8000])
    return 0
