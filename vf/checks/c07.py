"""C07: a successful build leaves no orphaned outputs behind (history BFS over plan edits)."""

from .. import hist
from ..dirx import describe
from ..runner import Acc, h8

LEVEL = "model_checking"
RULE = (
    "breadth-first over histories of plan edits that drop, rename, move or re-role steps, outputs, "
    "volatile outputs, working directories and optional steps, a restart build (cleaning enabled, "
    "no targets) after each; at every successful state: every file or directory that is not a "
    "source and that a from-scratch build of the same sources does not leave is an orphan; "
    "non-trivial: an earlier build of the history wrote a path that the final plan no longer declares"
)
ASSUMPTIONS = ["default schedule inside histories", "unmodified outputs only (user edits are C06)"]

FAMILIES = ["f_vol", "f_optional", "f_chain", "f_subplan", "f_redefine", "f_selfprod", "f_glob", "f_amend",
            "f_dynout", "f_nested", "f_planuse", "f_failwrite"]
# families whose histories also contain two simultaneous edits before one build
PAIR_FAMILIES = ("f_dynout",) 
CFG = {"njob": 2}


def jobs(tier, seed):
    depth = 2 if tier == "quick" else 3
    out = []
    for fam in FAMILIES:
        start = {"fam": fam, "knobs": {}}
        for elabel, d in edits_for(fam)(start):
            out.append({"start": start, "first": (elabel, d), "depth": depth})
    # other starting points: an optional producer that is needed by one consumer
    for start in EXTRA_STARTS:
        for elabel, d in edits_for(start["fam"])(start):
            out.append({"start": start, "first": (elabel, d), "depth": depth})
    return out


EXTRA_STARTS = [{"fam": "f_failwrite", "knobs": {"need": "OPTIONAL", "consumer": 1}},
                {"fam": "f_failwrite", "knobs": {"need": "OPTIONAL", "consumer": 1, "outdir": "gen/sub"}}]


def edits_for(fam):
    return hist.knob_and_pair_edits if fam in PAIR_FAMILIES else hist.knob_edits


def held_by_attached(obs):
    """Detached nodes that an attached step (transitively, over dependency edges) still uses."""
    held = set()
    frontier = []
    for step, st in obs.db_steps.items():
        if not st["detached"]:
            frontier.append(f"step:{step}")
    # walk dependency edges backwards from attached steps: inputs, their producers, ...
    inputs_of = {f"step:{s}": [f"file:{p}" for p, _ in ins] for s, ins in obs.db_inputs.items()}
    producer_of = {}
    for s, outs in obs.db_outputs.items():
        for p in outs:
            producer_of[f"file:{p}"] = f"step:{s}"
    seen = set(frontier)
    while frontier:
        n = frontier.pop()
        nxt = inputs_of.get(n, []) if n.startswith("step:") else [producer_of[n]] if n in producer_of else []
        for m in nxt:
            if m not in seen:
                seen.add(m)
                held.add(m)
                frontier.append(m)
    return held


def analyse(obs_list, scratch, adopted=None):
    last = obs_list[-1]
    written = set()
    for o in obs_list[:-1]:
        for p in o.procs:
            written.update(w[1] for w in p["writes"])
    out = {}
    orphans = sorted(k for k in last.fs if k not in scratch.fs)
    if adopted is not None:
        # files the plans of an earlier build declared static are the user's from then on
        kept = [k for k in orphans if last.fs[k] != "dir" and adopted(k)]
        keep_dirs = {k[: i + 1] for k in kept for i, ch in enumerate(k) if ch == "/"}
        orphans = [k for k in orphans if k not in kept and k not in keep_dirs]
    # "unless an active step still uses it as an input"
    used = {p for s, ins in last.db_inputs.items() if not last.db_steps.get(s, {}).get("detached")
            for p, _ in ins}
    orphan_files = [k for k in orphans if last.fs[k] != "dir" and k in written and k not in used]
    kept_dirs = {k.rsplit("/", 1)[0] + "/" for k in used if "/" in k}
    orphan_dirs = [k for k in orphans if last.fs[k] == "dir"
                   and not any(kd.startswith(k if k.endswith("/") else k + "/") for kd in kept_dirs)]
    if orphan_files:
        out["orphan-file"] = orphan_files
    if orphan_dirs:
        out["orphan-dir"] = orphan_dirs
    held = held_by_attached(last)
    stray = []
    for path, (state, dg, det) in last.db_files.items():
        if det and f"file:{path}" not in held:
            stray.append(f"file:{path}")
    for step, st in last.db_steps.items():
        if st["detached"] and f"step:{step}" not in held:
            stray.append(f"step:{step}")
    if stray:
        out["stray-node"] = sorted(stray)
    return out


def run_job(spec):
    acc = Acc()
    fam = spec["start"]["fam"]

    def visit(labels, descs, obs_list, world):
        last = obs_list[-1]
        acc.evaluations += len(obs_list)
        acc.transitions += sum(o.nev for o in obs_list)
        acc.states.add(h8([last.raw, sorted(last.fs.items())]))
        if len(obs_list) < len(descs) or last.rc_class != "success" or not last.ok():
            return
        scratch = hist.scratch_build(descs[-1], CFG)
        acc.evaluations += 1
        if scratch.rc_class != "success":
            return
        written = set()
        for o in obs_list[:-1]:
            for p in o.procs:
                written.update(w[1] for w in p["writes"])
        final_declared = {p for outs in last.db_outputs.values() for p in outs}
        if written - {p for p in scratch.fs}:
            acc.nontrivial.add(h8([fam, labels]))
        from .c01 import adopted_paths

        found = analyse(obs_list, scratch, adopted_paths(descs))
        orphans = found.get("orphan-file") or found.get("orphan-dir")
        stray = found.get("stray-node")
        for kind, detail in found.items():
            def violates(cand, kind=kind):
                w, ol = hist.run_history(cand, CFG)
                w.destroy()
                if len(ol) < len(cand) or ol[-1].rc_class != "success":
                    return False
                sc = hist.scratch_build(cand[-1], CFG)
                return sc.rc_class == "success" and kind in analyse(ol, sc, adopted_paths(cand))

            small = hist.shrink(descs, violates)
            key = f"C07|{fam}|{kind}|{hist.history_label(small)}"
            if (fam == "f_subplan" and kind in ("orphan-file", "orphan-dir")
                    and any(d.get("knobs", {}).get("inputs") == "tree" for d in small)
                    and all(x.startswith("sub/out") for x in detail)):
                # one root cause under many histories: a static tree adopts the detached output
                key = f"C07|f_subplan|static-tree-adopts-output|{kind}"
            acc.violation(key,
                          {"family": fam, "edits": labels, "minimal_history": hist.history_label(small),
                           kind: detail, "exec": describe(last, 30)},
                          {"check": "C07", "descs": small, "labels": labels})
        acc.outcomes.setdefault(h8([fam, bool(orphans), bool(stray)]), 1)
        acc.sample({"family": fam, "edits": labels, "written_earlier": sorted(written)[:8],
                    "removed": [r[1] for r in last.reports if r[0] == "REMOVE"]})

    nrun, nstates, trunc = hist.bfs(spec["start"], spec["depth"], edits_for(spec["start"]["fam"]), visit, CFG,
                                    first=spec["first"])
    acc.count("histories", nrun)
    return acc


def replay(doc):
    import json

    print(json.dumps(doc.get("what"), indent=1, default=str)[:8000])
    rep = doc.get("replay") or {}
    if "descs" in rep:
        world, obs_list = hist.run_history(rep["descs"], CFG)
        for o in obs_list:
            print("---- build:", o.rc_class, o.started)
            for r in o.reports:
                print("   ", r[0], r[1])
        print(obs_list[-1].graph_text)
        print(sorted(obs_list[-1].fs))
        world.destroy()
    return 0
