"""C08: every path has one owner and conflicts are rejected in either order (OPX)."""

import itertools

from .. import opx, refmodel
from ..runner import Acc, h8

LEVEL = "model_checking"
RULE = (
    "three creators run at once (the plan and two steps); every declaration of the menu (static "
    "file, static tree, glob pattern, step with a path as input / output / volatile output, "
    "amendment with a path as input / output / volatile output, over files a b d/c d/e and trees "
    "d/ d/s/) by every creator; every ordered pair is sent in both orders on a fresh graph and "
    "sequences up to the stated length from it; after every accepted request the ownership "
    "invariants are evaluated on the tables; a pair conflicts in one order iff it conflicts in "
    "the other, with the same text; a repeated declaration is a no-op; path spellings go through "
    "the real api layer; non-trivial: pairs that touch the same path or a path under the same tree"
)
ASSUMPTIONS = ["three creators, four files, two trees, two patterns", "default hash gate policy"]

PATHS = ["a", "b", "d/c", "d/e", "d"]  # "d": a file named like the tree d/ without its separator
CREATORS = ["./plan.py", "c1", "c2"]
PREFIX = [("start", ()), ("req", "./plan.py", opx.step_req("c1")), ("req", "./plan.py", opx.step_req("c2"))]


def declarations():
    """(tag, claim, request builder(creator index)) for every declaration of the menu."""
    out = []
    for p in PATHS:
        if p == "d":
            # on disk d is a directory: only product claims make sense for a file of that name
            continue
        out.append((f"static {p}", ("static", p), lambda ci, p=p: ("declare_static", "$job", [], [p], [])))
    for t in ("d/", "d/s/"):
        out.append((f"tree {t}", ("tree", t), lambda ci, t=t: ("declare_static", "$job", [t], [], [])))
    for pat in ("*", "d/*"):
        out.append((f"pattern {pat}", ("glob", pat),
                    lambda ci, pat=pat: ("declare_static", "$job", [], [], [(pat, "$glob")])))
    out.append(("glob d/*", ("glob", "d/*"), lambda ci: ("register_glob", "$job", "d/*", {}, "$glob")))
    for p in PATHS:
        if p == "d":
            out.append((f"step out {p}", ("out", p), lambda ci, p=p: opx.step_req(f"o{ci}{p}", [], [p])))
            out.append((f"step vol {p}", ("vol", p), lambda ci, p=p: opx.step_req(f"v{ci}{p}", [], [], [p])))
            out.append((f"amend out {p}", ("out", p), lambda ci, p=p: ("amend_step", "$job", [], [], [p], [])))
            out.append((f"amend vol {p}", ("vol", p), lambda ci, p=p: ("amend_step", "$job", [], [], [], [p])))
            continue
        out.append((f"step inp {p}", ("inp", p), lambda ci, p=p: opx.step_req(f"i{ci}{p}", [p])))
        out.append((f"step out {p}", ("out", p), lambda ci, p=p: opx.step_req(f"o{ci}{p}", [], [p])))
        out.append((f"step vol {p}", ("vol", p), lambda ci, p=p: opx.step_req(f"v{ci}{p}", [], [], [p])))
        if p in ("a", "d/c"):
            # the same claims by steps with a working directory (their label carries '# wd=...')
            out.append((f"step out {p} wd", ("out", p), lambda ci, p=p: (
                "define_step", "$job", f"w{ci}{p}", [], [], [p], [], "d/", 32, {}, False, None, None)))
            out.append((f"step vol {p} wd", ("vol", p), lambda ci, p=p: (
                "define_step", "$job", f"x{ci}{p}", [], [], [], [p], "d/s/", 32, {}, False, None, None)))
        out.append((f"amend inp {p}", ("inp", p), lambda ci, p=p: ("amend_step", "$job", [p], [], [], [])))
        out.append((f"amend out {p}", ("out", p), lambda ci, p=p: ("amend_step", "$job", [], [], [p], [])))
        out.append((f"amend vol {p}", ("vol", p), lambda ci, p=p: ("amend_step", "$job", [], [], [], [p])))
    return out


class Check:
    def __init__(self, acc):
        self.acc = acc
        self.events = None
        self.raw = None

    def on_commit(self, sim, con):
        for kind, msg in refmodel.invariants(con, ownership=True):
            if kind in ("tree-ownership", "glob-matches-product", "output-edge", "static-with-source"):
                short = msg.split(" (")[0]
                if kind == "glob-matches-product":
                    short = self.classify_glob(msg)
                self.acc.violation(f"C08|{kind}|{short}", {"invariant": kind, "what": msg, "events": self.events},
                                   {"events": self.events})

    def classify_glob(self, msg):
        """Root cause class of 'an attached pattern matches an attached product', from the order
        of the declarations in the event list that reached the state:
        - the pattern was accepted after the product was declared and before its step ever
          finished (register_nglob only looks at matches on disk): known asymmetry;
        - the product was (re-)declared after the pattern and the pattern belongs to the
          product's own step (registered while that step was detached and running): the patterns
          of a detached step come back unchecked when the step is recycled;
        - the product was (re-)declared after a pattern of another, attached step: never
          acceptable (what _raise_if_glob_match exists for)."""
        import re

        mm = re.match(r"pattern (\S+) of step:(.+) matches (\S+)", msg)
        if not mm or self.raw is None:
            return msg
        pat, owner, path = mm.group(1), mm.group(2), mm.group(3)
        ipat = iprod = -1
        prod_step = None
        restarted = True
        for i, e in enumerate(self.raw):
            if e[0] in ("kill", "start"):
                restarted = True
            if e[0] != "req":
                continue
            req = e[2]
            if req[0] == "register_glob" and req[2] == pat:
                # the same pattern text may be registered with several substitutions: only a
                # registration whose regex matches the product is the one in question
                from stepup.core.nglob import convert_nglob_to_regex

                if re.fullmatch(convert_nglob_to_regex(pat, dict(req[3] or {})), path):
                    ipat = i
            elif req[0] == "declare_static" and any(p[0] == pat for p in req[4]):
                ipat = i
            elif req[0] == "define_step" and path in (list(req[5]) + list(req[6])):
                # repeating a declaration while its owner is attached is a no-op, not a new claim
                if restarted or prod_step != req[2]:
                    iprod, prod_step = i, req[2]
                restarted = False
            elif req[0] == "amend_step" and path in (list(req[4]) + list(req[5])):
                if restarted or prod_step != e[1]:
                    iprod, prod_step = i, e[1]
                restarted = False
        if ipat > iprod:
            finished = any(e[0] == "exit" and e[1] == prod_step for e in self.raw[iprod:ipat])
            return "unbuilt-product-declared-first" if not finished else "pattern-accepted-over-built-product"
        if owner == prod_step:
            return "own-pattern-of-detached-step-recycled"
        return "product-accepted-under-registered-pattern"

    def after_event(self, machine, ev, before, after, info, sim):
        pass


def send(m, check, events):
    check.events = [repr(e)[:160] for e in events]
    check.raw = list(events)
    st = m.replay(events)
    last = st["info"]["last"]
    reply = last["reply"] if last else None
    rejected = isinstance(reply, opx.RemoteFailure)
    text = (reply.qualname, reply.message) if rejected else None
    return st, rejected, text, reply


CLAIMS = {"static": "STATIC", "out": "OUTPUT", "vol": "VOLATILE"}


def expected_conflict(ta, ca, xa, tb, cb, xb):
    """Reference answer for clear-cut pairs: True (must be rejected in both orders), False (must be
    accepted in both orders) or None (not decided by this reference)."""
    ka, kb = ca[0], cb[0]
    if ka in CLAIMS and kb in CLAIMS and ca[1] == cb[1]:
        # a path has one owner in one role: a step is the owner of what it is defined with,
        # the sender is the owner of what it declares static or amends
        owner_a = ("step", ta, xa) if ta.startswith("step") else ("sender", xa)
        owner_b = ("step", tb, xb) if tb.startswith("step") else ("sender", xb)
        return not (CLAIMS[ka] == CLAIMS[kb] and owner_a == owner_b)
    if {ka, kb} == {"inp", "vol"} and ca[1] == cb[1]:
        return True
    if "tree" in (ka, kb) and ka != kb:
        tree, other, xt, xo = (ca, cb, xa, xb) if ka == "tree" else (cb, ca, xb, xa)
        if other[0] in ("out", "vol") and (other[1] + "/").startswith(tree[1]):
            return True
        if other[0] == "static" and (other[1] + "/").startswith(tree[1]):
            return xt != xo
        if other[0] in ("inp",):
            return False
    if {ka, kb} == {"inp", "out"} and ca[1] == cb[1] and ta.startswith("amend") and tb.startswith("amend") and xa == xb:
        return True  # one step consuming its own output: a cycle
    if ka == "inp" and kb == "inp":
        return False
    if {ka, kb} <= {"inp", "static", "out"} and "inp" in (ka, kb):
        return False
    return None


def touches(ca, cb):
    pa, pb = ca[1], cb[1]
    if ca[0] == "glob" or cb[0] == "glob":
        return True
    return pa == pb or pa.startswith(pb) or pb.startswith(pa) or (pa.startswith("d/") and pb.startswith("d/"))


def jobs(tier, seed):
    decls = declarations()
    out = []
    idx = list(range(len(decls)))
    for ia in idx:
        out.append({"part": "pairs", "ia": ia, "tier": tier})
    out.append({"part": "spell", "tier": tier})
    m = opx.Machine(menu=RECYCLE_MENU, njob=3, targets_menu=((),), fs_events=False, exits=["ok"])
    depth = 6 if tier == "quick" else 8
    for root in opx.split_frontier(m, [("start", ())], 3):
        out.append({"part": "recycle", "root": root, "depth": depth - 2})
    m3 = opx.Machine(menu=TREES_MENU, njob=3, targets_menu=((),), fs_events=False, exits=["ok"])
    for root in opx.split_frontier(m3, [("start", ())], 3):
        out.append({"part": "recycle", "menu": "trees", "root": root, "depth": depth - 2})
    m4 = opx.Machine(menu=TREES3_MENU, njob=3, targets_menu=((),), fs_events=False, exits=["ok"])
    for root in opx.split_frontier(m4, TREES3_ROOT, 2):
        out.append({"part": "recycle", "menu": "trees3", "root": root, "depth": 4 if tier == "quick" else 5})
    m2 = opx.Machine(menu=SUBS_MENU, njob=3, targets_menu=((),), fs_events=False, exits=["ok"], allow_kill=False)
    for root in opx.split_frontier(m2, [("start", ())], 1):
        out.append({"part": "recycle", "menu": "subs", "root": root, "depth": 3 if tier == "quick" else 4})
    if tier == "thorough":
        for ia in idx:
            out.append({"part": "triples", "ia": ia, "tier": tier})
    return out


def run_pairs(spec, acc):
    decls = declarations()
    check = Check(acc)
    m = opx.Machine(njob=3, check=check, targets_menu=((),), fs_events=False)
    ia = spec["ia"]
    ta, ca, ba = decls[ia]
    alone = {}

    def accepted_alone(i, ci):
        key = (i, ci)
        if key not in alone:
            req = decls[i][2](ci)
            _, rej, text, _ = send(m, check, [*PREFIX, ("req", CREATORS[ci], req)])
            acc.evaluations += 1
            alone[key] = (not rej, text)
        return alone[key]

    for xa, xb in itertools.product(range(3), repeat=2):
        for ib in range(len(decls)):
            tb, cb, bb = decls[ib]
            if ib < ia and xa != xb:
                pass
            ra, rb = ba(xa), bb(xb)
            if ra == rb and xa == xb:
                # repetition by the same creator in the same role
                ok_a, _ = accepted_alone(ia, xa)
                if not ok_a:
                    continue
                st1, _, _, _ = send(m, check, [*PREFIX, ("req", CREATORS[xa], ra)])
                st2, rej2, text2, _ = send(m, check, [*PREFIX, ("req", CREATORS[xa], ra), ("req", CREATORS[xa], ra)])
                acc.evaluations += 2
                acc.transitions += 2
                acc.nontrivial.add(h8(["rep", ta, xa]))
                # a pattern claims nothing, so registering it twice is outside "the same role"
                is_step = ra[0] == "define_step" or ca[0] == "glob"
                if not is_step and (rej2 or st1["raw"] != st2["raw"]):
                    acc.violation(f"C08|repeat-not-noop|{ta}",
                                  {"declaration": ta, "creator": CREATORS[xa], "second_rejected": rej2,
                                   "text": text2, "tables_changed": st1["raw"] != st2["raw"]}, None)
                continue
            ok_a, _ = accepted_alone(ia, xa)
            ok_b, _ = accepted_alone(ib, xb)
            if not (ok_a and ok_b):
                continue
            if not touches(ca, cb):
                continue
            ea = ("req", CREATORS[xa], ra)
            eb = ("req", CREATORS[xb], rb)
            _, rej_ab, text_ab, _ = send(m, check, [*PREFIX, ea, eb])
            _, rej_ba, text_ba, _ = send(m, check, [*PREFIX, eb, ea])
            acc.evaluations += 2
            acc.transitions += 2
            acc.states.add(h8([ta, xa, tb, xb]))
            acc.nontrivial.add(h8([ta, xa, tb, xb]))
            same = "same" if xa == xb else "other"
            kinds = {ca[0], cb[0]}
            cls = f"{min(ta, tb)}|{max(ta, tb)}|{same}"
            if "glob" in kinds and kinds & {"out", "vol"}:
                cls = "glob-vs-unbuilt-product"
            elif kinds == {"tree"} and xa == xb:
                cls = "nested-trees-same-creator"
            texts_out = acc.extra.setdefault("texts", [])
            if rej_ab and rej_ba and text_ab != text_ba:
                texts_out.append({"a": ta, "by_a": CREATORS[xa], "b": tb, "by_b": CREATORS[xb],
                                  "claims": [list(ca), list(cb)], "a_then_b": text_ab, "b_then_a": text_ba})
            exp = expected_conflict(ta, ca, xa, tb, cb, xb)
            if exp is not None and (rej_ab != exp or rej_ba != exp) and rej_ab == rej_ba:
                acc.violation(f"C08|{'conflict-accepted' if exp else 'rejected-without-conflict'}|{cls}",
                              {"why": "two conflicting declarations are both accepted" if exp else
                               "two compatible declarations are rejected",
                               "a": ta, "by_a": CREATORS[xa], "b": tb, "by_b": CREATORS[xb],
                               "a_then_b_rejected": rej_ab, "b_then_a_rejected": rej_ba,
                               "text": text_ab or text_ba}, None)
            if rej_ab != rej_ba:
                acc.violation(f"C08|order-dependent|{cls}",
                              {"why": "the pair is rejected in one arrival order and accepted in the other",
                               "a": ta, "by_a": CREATORS[xa], "b": tb, "by_b": CREATORS[xb],
                               "a_then_b_rejected": rej_ab, "b_then_a_rejected": rej_ba,
                               "text": text_ab or text_ba}, None)
            if len(acc.samples) < 2 and rej_ab:
                acc.sample({"a": ta, "by_a": CREATORS[xa], "b": tb, "by_b": CREATORS[xb], "rejected": text_ab[1][:160]})


def run_triples(spec, acc):
    decls = declarations()
    check = Check(acc)
    m = opx.Machine(njob=3, check=check, targets_menu=((),), fs_events=False)
    ia = spec["ia"]
    core = [i for i, d in enumerate(decls) if d[1][1] in ("a", "d/e", "d/", "d/*")]
    for xa in range(2):
        for ib, ic in itertools.product(core, repeat=2):
            for xb, xc in ((0, 1), (1, 2), (1, 1)):
                evs = [*PREFIX, ("req", CREATORS[xa], decls[ia][2](xa)), ("req", CREATORS[xb], decls[ib][2](xb)),
                       ("req", CREATORS[xc], decls[ic][2](xc))]
                send(m, check, evs)
                acc.evaluations += 1
                acc.transitions += 3
                acc.states.add(h8([ia, xa, ib, xb, ic, xc]))


def run_spell(spec, acc):
    """Spellings of the same path through the real api layer produce the same labels."""
    from ..dirx import fresh_world, session
    from ..harness import script

    spellings = {
        ".": [("a", "a"), ("./a", "a"), ("d/../a", "a"), ("d//e", "d/e"), ("d/./e", "d/e"), ("./d/e", "d/e")],
        "d": [("../a", "a"), ("e", "d/e"), ("./e", "d/e"), ("../d/e", "d/e"), ("s/../e", "d/e")],
        "d/s": [("../../a", "a"), ("../e", "d/e"), ("./../e", "d/e")],
    }
    for wd, cases in spellings.items():
        for spelled, label in cases:
            for role in ("static", "inp", "out"):
                if role == "out":
                    label2 = {"a": "gen_a", "d/e": "d/gen_e"}[label]
                    sp2 = spelled[: -1] + {"a": "gen_a", "e": "gen_e"}[spelled[-1]] if spelled[-1] in "ae" else spelled
                    sub = [["step", "tr X -- OUT", {"out": [sp2]}]]
                    want = ("file:" + label2, None)
                elif role == "inp":
                    sub = [["step", "tr Y IN -- ", {"inp": [spelled]}]]
                    want = ("file:" + label, None)
                else:
                    sub = [["static", spelled]]
                    want = ("file:" + label, None)
                files = {
                    "plan.py": script([["static", f"{wd}/sub.py" if wd != "." else "sub.py"],
                                       ["plan", "./sub.py", {"workdir": wd}]]),
                    (f"{wd}/sub.py" if wd != "." else "sub.py"): script(sub),
                    "a": "a\n", "d/e": "e\n", "d/s/": "",
                }
                w = fresh_world(files, "c8s")
                obs = session(w, {"njob": 2})
                w.destroy()
                acc.evaluations += 1
                acc.transitions += obs.nev
                acc.nontrivial.add(h8([wd, spelled, role]))
                labels = set(getattr(obs, "db_files", {}) or {})
                target = want[0][5:]
                weird = [x for x in labels if x != os.path.normpath(x)]
                if not obs.ok() or target not in labels or weird:
                    acc.violation(f"C08|spelling|{wd}|{spelled}|{role}",
                                  {"workdir": wd, "spelled": spelled, "role": role, "expected_label": target,
                                   "labels": sorted(labels), "not_normalized": weird,
                                   "errors": [r for r in obs.log if r[1] in ("apierr", "rpcfail")][:2]}, None)
    acc.sample({"spellings": sum(len(v) for v in spellings.values())})


import os  # noqa: E402


RECYCLE_MENU = [opx.MENU_STEPS[5], opx.MENU_STATIC[8], opx.MENU_STATIC[7]]


# the same pattern text registered with different substitutions of its named wildcard (matches
# scanned on the real tree as the client does), and products named b
SUBS_MENU = [("register_glob", "$job", "${*n}", {"n": "[a]"}, "$glob"),
             ("register_glob", "$job", "${*n}", {"n": "[b]"}, "$glob"),
             opx.step_req("s3", [], ["b"]), opx.MENU_AMEND[4], opx.step_req("s2", [], [], ["b"])]


# a step that declares a static tree, another step with an output under that tree: the tree
# comes back with its recycled declarer after the output was declared (and the other way round)
TREES_MENU = [opx.step_req("s1", [], ["b"]), opx.MENU_STEPS[5], opx.MENU_STATIC[4]]
# the same with the tree two creator levels below the step that is recycled: the search starts
# from the state in which s1 has defined s2 and s2 has declared the tree
TREES3_MENU = [opx.step_req("s1", [], ["b"]), opx.step_req("s2", [], ["c"]), opx.MENU_STEPS[5], opx.MENU_STATIC[4]]
TREES3_ROOT = [("start", ()), ("req", "./plan.py", TREES3_MENU[0]), ("req", "s1", TREES3_MENU[1]),
               ("req", "s2", TREES3_MENU[3])]
MENUS = {"subs": SUBS_MENU, "trees": TREES_MENU, "trees3": TREES3_MENU}


def run_recycle(spec, acc):
    """Declarations that arrive while an earlier owner is detached but recyclable: a step is
    defined (and may run), its creator is killed and runs again, patterns and steps are declared
    in every order. Breadth-first over canonical states, invariants at every commit."""
    check = Check(acc)
    menu = MENUS.get(spec.get("menu"), RECYCLE_MENU)
    m = opx.Machine(menu=menu, njob=3, check=check, targets_menu=((),), fs_events=False,
                    exits=["ok"], allow_kill=spec.get("menu") != "subs")
    orig = m.replay

    def replay(events):
        check.events = [repr(e)[:160] for e in events]
        check.raw = list(events)
        return orig(events)

    m.replay = replay

    def visit(events, st):
        acc.evaluations += 1
        acc.states.add("r" + st["key"])
        if any(e[0] == "kill" for e in events):
            acc.nontrivial.add("r" + st["key"])

    nstates, ntrans, trunc, closed = opx.bfs(m, [spec["root"]], spec["depth"], visit)
    acc.transitions += ntrans
    if trunc:
        acc.caps.append("recycle: state cap")


def run_job(spec):
    acc = Acc()
    if spec["part"] == "recycle":
        run_recycle(spec, acc)
    elif spec["part"] == "pairs":
        run_pairs(spec, acc)
    elif spec["part"] == "triples":
        run_triples(spec, acc)
    else:
        run_spell(spec, acc)
    return acc


def replay(doc):
    import json

    print(json.dumps(doc.get("what"), indent=1, default=str)[:6000])
    return 0
