"""C09: the stored workflow satisfies its invariants after every transaction (OPX search)."""

from .. import opx, refmodel
from ..runner import Acc, h8

LEVEL = "model_checking"
RULE = (
    "breadth-first search over canonical states of the real director driven through its request "
    "interface: every running command may send any request of the menu (static files, trees, "
    "patterns, step definitions with collisions and cycles, amendments, hold/release, malformed "
    "requests) or exit (success, missing output, failure); external changes of sources and "
    "outputs; kill and restart; restart with other targets; drain; the invariants are evaluated "
    "inside every committing transaction of the last event of each explored path, the statement "
    "level state changes are read from temp triggers; non-trivial: a state reached by a request "
    "that changed the database"
)
ASSUMPTIONS = [
    "hash and reporter gates follow the default policy in this search (schedules are DIRX's job)",
    "the universe is 5 files, 2 trees, 2 patterns, 3 commands; larger universes are not covered",
]


def redeclared_while_running(raw):
    """Root cause shared by several symptoms: a step whose command runs while the step is detached
    (its creator was killed and restarted, or is re-running) is declared again by the creator, and
    the old command goes on sending requests or exits afterwards. Returns the step label or None.
    Condition on the event list: define_step(L), later a kill, later define_step(L) again, and
    an event sent by L's command after the kill."""
    if not raw:
        return None
    defs, kills, acts = {}, [], {}
    for i, e in enumerate(raw):
        if e[0] == "kill":
            kills.append(i)
        elif e[0] == "req":
            if e[2][0] == "define_step":
                defs.setdefault(e[2][2], []).append(i)
            acts.setdefault(e[1], []).append(i)
        elif e[0] == "exit":
            acts.setdefault(e[1], []).append(i)
    for label, idx in defs.items():
        for i1 in idx:
            for k in kills:
                if k > i1 and any(i2 > k for i2 in idx) and any(j > k for j in acts.get(label, [])):
                    return label
    return None


class Check:
    def __init__(self, acc):
        self.acc = acc
        self.events = None
        self.raw = None

    def on_commit(self, sim, con):
        self.acc.count("commits_checked")
        for kind, msg in refmodel.invariants(con):
            if kind in ("glob-matches-product", "tree-ownership"):
                continue  # ownership is C08's
            key = f"C09|invariant|{kind}"
            if redeclared_while_running(self.raw):
                key += "|step-running-while-detached-was-redeclared"
            self.acc.violation(key, {"invariant": kind, "what": msg, "events": self.events}, {"events": self.events})

    def after_event(self, machine, ev, before, after, info, sim):
        last = info["last"]
        for kind, msg in refmodel.bad_transitions(last["log"]):
            key = f"C09|{kind}|{msg.split(': ', 1)[1]}"
            node = msg.split(": ", 1)[0]
            if kind == "step-transition" and node.startswith("step:") and self.raw:
                label = node[5:]
                ndef = sum(1 for e in self.raw if e[0] == "req" and e[2][0] == "define_step" and e[2][2] == label)
                if ndef >= 2 and self.raw[-1][0] == "exit" and self.raw[-1][1] == label:
                    # the completion of a command that was started under an earlier definition of
                    # the step is applied to the step after its creator re-declared it
                    key += "|completion-of-a-run-started-before-the-step-was-redeclared"
                elif redeclared_while_running(self.raw):
                    key += "|step-running-while-detached-was-redeclared"
            self.acc.violation(key, {"what": msg, "events": self.events}, {"events": self.events})
        reply = last["reply"]
        if isinstance(reply, opx.RemoteFailure) and reply.qualname in opx.INTERNAL_ERRORS:
            self.acc.violation(f"C09|internal-error|{reply.qualname}|{ev[2][0] if ev[0] == 'req' else ev[0]}",
                               {"error": reply.qualname, "message": reply.message, "events": self.events,
                                "traceback": reply.traceback_text[-1500:]}, {"events": self.events})
        if last["fault"]:
            self.acc.violation(f"C09|{last['fault'][0]}", {"events": self.events, "fault": last["fault"]},
                               {"events": self.events})
        if last["phase_ended"]:
            rec = info["last_phase"]
            if rec.get("error"):
                key = f"C09|director-raised|{rec.get('error_type')}"
                if redeclared_while_running(self.raw):
                    key += "|step-running-while-detached-was-redeclared"
                self.acc.violation(key, {"error": rec["error"][-1500:], "events": self.events}, {"events": self.events})
        if before is not None and after is not None and before["raw"] != after["raw"]:
            self.acc.nontrivial.add(h8(self.events))


CORE_MENU = [opx.MENU_STATIC[0], opx.MENU_STATIC[4], opx.MENU_STATIC[8], opx.MENU_STEPS[0], opx.MENU_STEPS[2],
             opx.MENU_STEPS[3], opx.MENU_STEPS[4], opx.MENU_STEPS[7], opx.MENU_AMEND[0], opx.MENU_AMEND[3],
             opx.MENU_HOLD[0], opx.MENU_HOLD[1]]


# definitions that close dependency cycles among built files, amendments of the same paths, and
# the events that detach and recycle steps (exit and rerun of the creator, kill and restart)
CYCLE_MENU = [opx.MENU_STEPS[2], opx.MENU_STEPS[11], opx.MENU_AMEND[2], opx.MENU_AMEND[4]]


# a step that defines steps itself, re-declared by its creator with the same or another signature
# after the creator was restarted: partial and full recycling of nested creators
NESTED_MENU = [opx.MENU_STEPS[5], opx.MENU_STEPS[4], opx.MENU_STEPS[2]]


# a producer, its consumer, and a user who rewrites the producer's output at any moment (also
# while the consumer runs, so that the post-run re-hash of the consumer's inputs reports it)
REHASH_MENU = [opx.MENU_STATIC[0], opx.MENU_STEPS[0], opx.MENU_STEPS[2]]


# a built output is changed by the user, noticed by a build that is restricted to another target
# (so nothing is rebuilt), put back byte for byte, and then re-validated by an unrestricted build
RESTORE_MENU = [opx.MENU_STATIC[0], opx.MENU_STEPS[0]]


# a built file loses its creator while its producer stays (the producer is re-declared under the
# same command with another output) and is then supplied as an input that nothing declares, or
# declared static: what a former build product keeps of its state and hash in its new role
REUSE_MENU = [opx.MENU_STATIC[0], opx.MENU_STEPS[0], opx.step_req("s1", ["a"], ["b2"]), opx.MENU_STEPS[2],
              opx.MENU_STATIC[1]]


# a step that is running again (its input changed) when its creator fails: it completes while it
# is detached, with unchanged output content, and is recycled later. The search starts from the
# state in which the re-declared step and its creator both run.
DETFIN_MENU = [opx.MENU_STATIC[0], opx.MENU_STEPS[0]]
DETFIN_ROOT = [("start", ()), ("req", "./plan.py", DETFIN_MENU[0]), ("req", "./plan.py", DETFIN_MENU[1]),
               ("exit", "s1", "ok"), ("kill",), ("fs", "change", "a"), ("start", ()),
               ("req", "./plan.py", DETFIN_MENU[0]), ("req", "./plan.py", DETFIN_MENU[1])]


def machine_for(kind, check):
    if kind == "detfin":
        return opx.Machine(menu=DETFIN_MENU, check=check, targets_menu=((),), exits=["ok", "fail"], fs_events=False)
    if kind == "reuse":
        return opx.Machine(menu=REUSE_MENU, check=check, targets_menu=((),), exits=["ok"], fs_events=False)
    if kind == "restore":
        m = opx.Machine(menu=RESTORE_MENU, check=check, targets_menu=((), ("c",)), exits=["ok"], allow_kill=False)
        m.fs_menu = [("touch_out", "b"), ("restore_out", "b")]
        return m
    if kind == "rehash":
        m = opx.Machine(menu=REHASH_MENU, check=check, targets_menu=((),), exits=["ok"], allow_kill=False)
        m.fs_menu = [("touch_out", "b"), ("change", "a")]
        return m
    if kind == "nested":
        return opx.Machine(menu=NESTED_MENU, check=check, targets_menu=((),), exits=["ok"], fs_events=False)
    if kind.startswith("pair:"):
        i, j = (int(x) for x in kind.split(":")[1:])
        menu = [opx.FULL_MENU[i], opx.FULL_MENU[j]]
        return opx.Machine(menu=menu, check=check, targets_menu=((),), exits=["ok"], fs_events=False)
    if kind == "cycle":
        m = opx.Machine(menu=CYCLE_MENU, check=check, targets_menu=((),), exits=["ok"], fs_events=False)
        return m
    if kind == "core":
        m = opx.Machine(menu=CORE_MENU, check=check, targets_menu=((),), exits=["ok", "fail"])
        m.fs_core = True
        return m
    return opx.Machine(check=check)


def jobs(tier, seed):
    out = []
    full_depth, core_depth = (2, 4) if tier == "quick" else (3, 6)
    cycle_depth = 6 if tier == "quick" else 8
    kinds = [("full", full_depth), ("core", core_depth), ("cycle", cycle_depth), ("nested", cycle_depth),
             ("rehash", 7 if tier == "quick" else 9), ("restore", 9 if tier == "quick" else 10),
             ("reuse", 8 if tier == "quick" else 10)]
    if tier == "thorough":
        # every pair of requests of the full menu as an alphabet of its own, searched deep
        import itertools

        n = len(opx.FULL_MENU) - len(opx.MENU_MALFORMED)
        kinds += [(f"pair:{i}:{j}", 6) for i, j in itertools.combinations(range(n), 2)]
    m = machine_for("detfin", None)
    for root in opx.split_frontier(m, DETFIN_ROOT, 1):
        out.append({"kind": "detfin", "root": root, "depth": 4 if tier == "quick" else 6})
    for kind, depth in kinds:
        if kind.startswith("pair:"):
            out.append({"kind": kind, "root": [("start", ())], "depth": depth})
            continue
        m = machine_for(kind, None)
        if depth >= 4:
            # deeper searches: one job per distinct state two (three) events below the start
            lv = 3 if depth >= 6 else 2
            for root in opx.split_frontier(m, [("start", ())], lv):
                out.append({"kind": kind, "root": root, "depth": depth - lv})
            continue
        st = m.replay([("start", ())])
        for ev in st["enabled"]:
            out.append({"kind": kind, "root": [("start", ()), ev], "depth": depth - 1})
    out.append({"kind": "full", "root": [("start", ("c",))], "depth": full_depth})
    out.append({"kind": "full", "root": [("start", ("d/",))], "depth": full_depth})
    return out


def run_job(spec):
    acc = Acc()
    check = Check(acc)
    m = machine_for(spec.get("kind", "full"), check)

    def visit(events, st):
        acc.evaluations += 1
        acc.states.add(st["key"])
        if len(acc.samples) < 2 and len(events) >= 3:
            acc.sample({"events": [repr(e)[:120] for e in events], "running": st["running"]})

    orig_replay = m.replay

    def replay(events):
        check.events = [repr(e) for e in events]
        check.raw = list(events)
        return orig_replay(events)

    m.replay = replay
    nstates, ntrans, trunc, closed = opx.bfs(m, [spec["root"]], spec["depth"], visit,
                                             max_states=spec.get("max_states"))
    acc.transitions += ntrans
    acc.extra["closed_depth"] = {spec.get("kind", "full") + repr(spec["root"][1:2]): closed + len(spec["root"])}
    if trunc:
        acc.caps.append(f"{spec['root']}: state cap")
    return acc


def coverage_extra(total, tier):
    d = total.extra.get("closed_depth", {})
    return {"depth_closed_min": min(d.values()) if d else 0, "depth_closed_max": max(d.values()) if d else 0}


def replay(doc):
    import json

    print(json.dumps(doc.get("what"), indent=1, default=str)[:6000])
    return 0
