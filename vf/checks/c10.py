"""C10: dispatch is exact (DIRX schedules + dispatch monitor; OPX states are added by C09's run)."""

from .. import hist, monitors, projects
from ..dirx import describe, fresh_world, session
from ..explore import explore, split_roots
from ..runner import Acc, h8

LEVEL = "model_checking"
RULE = (
    "every schedule with at most d deviations of hold, resource, amend, defer, sub-plan and "
    "rebuild-after-edit projects; at every dispatch decision (inside the dispatch transaction, "
    "after the metadata passes) the cached _safe, _safe_ignoring_hold, _implied_need, _ready and "
    "_has_hash of every attached step are compared with their definitions, the dispatched step "
    "must be in the reference eligible set, nothing eligible may be left when the decision is "
    "'none' or when a non-draining phase ends; non-trivial: an execution with a decision taken "
    "while at least two steps were eligible, or a step was held, deferred or resource-blocked"
)
ASSUMPTIONS = [
    "the detached flag of nodes is trusted here (C09 checks it against reachability)",
    "reference definitions are written from the StepState/FileState/Need documentation",
]


def project_list(tier):
    out = []
    for nesting in (1, 2):
        for sub in (0, 1):
            out.append((f"hold:n{nesting}s{sub}", [("f_hold", {"nesting": nesting, "sub": sub})], {"njob": 2}))
    out.append(("holdhash", [("f_hold", {"nesting": 2, "v": 1}), ("f_hold", {"nesting": 2, "v": 2})], {"njob": 2}))
    out.append(("res", [("f_resmix", {"demands": ("cpu:2", "cpu:1", "cpu:1,gpu:1", "q:1")})],
                {"njob": 3, "resources": "cpu:2,gpu:1"}))
    out.append(("amend_built", [("f_amend", {"extra": "built"})], {"njob": 2}))
    out.append(("amend_optional_dropped", [("f_amend", {"extra": "optional"}),
                                           ("f_amend", {"extra": "optional", "version": "none"})], {"njob": 2}))
    for kind in ("fail", "defer"):
        out.append((f"resdetached:{kind}", [("f_resdetached", {"kind": kind})],
                    {"njob": 4, "resources": "gpu:1", "keep_going": True}))
    out.append(("holddied", [("f_hold", {"nesting": 2, "fail": 1, "v": 1}), ("f_hold", {"nesting": 2, "fail": 0, "v": 2})],
                {"njob": 3}))
    out.append(("amend_tree", [("f_amend", {"extra": "tree"})], {"njob": 2}))
    out.append(("prodcons", [("f_prodcons", {"consumer": "read_first", "producer_by": "step"})], {"njob": 3}))
    out.append(("defercap", [("f_prodcons", {"consumer": "read_first"})], {"njob": 3, "defer_cap": 1}))
    out.append(("cycle", [("f_fail", {"kind": "cycle"})], {"njob": 2}))
    out.append(("optional_t", [("f_optional", {})], {"njob": 2, "targets": ["o1.txt"]}))
    out.append(("optional_d", [("f_optional", {})], {"njob": 2, "target_dirs": ["out/"]}))
    out.append(("optional_sub", [("f_optional", {"usub": 1}), ("f_optional", {"usub": 1, "u": 0})], {"njob": 2}))
    out.append(("optional_sub2", [("f_optional", {"usub": 1, "u": 0}), ("f_optional", {"usub": 1, "u": 1})], {"njob": 2}))
    out.append(("selfprod", [("f_selfprod", {})], {"njob": 1}))
    out.append(("chain_edit", [("f_chain", {}), ("f_chain", {"b_need": "OPTIONAL", "c": 0})], {"njob": 2}))
    out.append(("chain_retag", [("f_chain", {}), ("f_chain", {"a_tag": 2})], {"njob": 2}))
    out.append(("subplan_drop", [("f_subplan", {}), ("f_subplan", {"sub": 0})], {"njob": 2}))
    out.append(("twoplans", [("f_twoplans", {"kind": "producer_consumer"})], {"njob": 3}))
    out.append(("fail", [("f_fail", {"kind": "fail"})], {"njob": 2, "keep_going": True}))
    # recycled nested plans: with 4 jobs the scheduler decides between the requests of the plan
    out.append(("nested_replan", [("f_nested", {}), ("f_nested", {"v": 2})], {"njob": 4}))
    out.append(("nested_failfix", [("f_nested", {"pcopy": 1, "src": "!fail"}),
                                   ("f_nested", {"pcopy": 1, "src": "good", "v": 2})], {"njob": 4}))
    out.append(("nested_drop", [("f_nested", {}), ("f_nested", {"deep": 0})], {"njob": 4}))
    out.append(("needgraph_replan", [("f_needgraph", {"needs": ("OPTIONAL", "DEFAULT", "OPTIONAL"),
                                                       "edges": ((), (0,), (1,)), "subplan": 1}),
                                     ("f_needgraph", {"needs": ("OPTIONAL", "DEFAULT", "OPTIONAL"),
                                                       "edges": ((), (0,), (1,)), "subplan": 1, "v": 2})],
                {"njob": 4}))
    return out


def _run_probe(spec, prefix):
    """Lock contention probe. Once per execution, at any quiescent point of the build, a
    transaction that changes nothing takes the database session and keeps it across the next
    events, as the watcher's transactions do in the watch phase (they span a reporter round trip).
    Requests and dispatch decisions that arrive meanwhile queue on the session lock in arrival
    order and run back to back when it is released (released last by default). A dispatch decision
    must still be taken on cached attributes that agree with their definitions: that is what
    keeping the metadata passes and the selection in ONE transaction buys."""
    from ..dirx import Obs
    from ..harness import Deadlock, EnvEvent, Horizon, PrefixChooser, Sim

    fam, knobs = spec["fams"][0]
    w = fresh_world(getattr(projects, fam)(**knobs), "c10p")
    state = {"held": False}

    def env(sim):
        if state["held"] or sim.handler is None or len(sim.running) == 0:
            return []

        def fn(s):
            state["held"] = True
            s.flags.add("probe")

            async def holder():
                async with s.db:
                    await s.gate("probe", "release the session")

            s.loop.create_task(holder())
        return [EnvEvent("probe: a transaction holds the session", fn)]

    cfg = dict(spec["cfg"])
    sim = Sim(w, env_events=env, horizon=3000, monitors=[monitors.install], **cfg)
    sim.start()
    fault = None
    try:
        try:
            sim.run(PrefixChooser(prefix))
        except Deadlock as exc:
            fault = ("deadlock", str(exc))
        except Horizon as exc:
            fault = ("horizon", str(exc))
        obs = Obs(sim, fault)
    finally:
        sim.close()
        w.destroy()
    return obs


def _run(spec, prefix):
    if spec.get("probe"):
        return _run_probe(spec, prefix)
    fams, cfg = spec["fams"], dict(spec["cfg"])
    cfg["monitors"] = [monitors.install]
    fam, knobs = fams[0]
    files = getattr(projects, fam)(**knobs)
    w = fresh_world(files, "c10")
    for fam, knobs in fams[1:]:
        session(w, dict(cfg), ())
        nf = getattr(projects, fam)(**knobs)
        hist.sync(w, files, nf)
        files = nf
    obs = session(w, cfg, prefix)
    w.destroy()
    return obs


def jobs(tier, seed):
    bound = 1 if tier == "quick" else 2
    out = []
    # lock contention probe on two base schedules
    for policy in ("thread", "fifo"):
        for lead in (0, 1, 2, 3):
            spec = {"name": f"probe:holdlate{lead}/{policy}", "fams": [("f_holdlate", {"lead": lead})],
                    "cfg": {"njob": 2, "policy": policy}, "probe": True, "bound": 2}
            obs = _run(spec, [])
            for r in split_roots(obs.points, 2):
                out.append({**spec, **r})
    for name, fams, cfg in project_list(tier):
        spec = {"name": name, "fams": fams, "cfg": cfg, "bound": bound}
        if tier == "quick":
            out.append({**spec, "root": [], "only_root": False})
        else:
            obs = _run(spec, [])
            for r in split_roots(obs.points, bound):
                out.append({**spec, **r})
    return out


def run_job(spec):
    acc = Acc()
    name = spec["name"]
    cap = spec["cfg"].get("defer_cap", 100)

    def visit(prefix, obs):
        acc.evaluations += 1
        acc.transitions += obs.nev
        acc.count("dispatch_decisions", obs.counters.get("decisions", 0))
        acc.states.add(h8(obs.trace))
        held = any(r[0] == "DEFERRED" for r in obs.reports) or "choice-among-eligible" in obs.flags
        if held or name.startswith(("hold", "res")):
            acc.nontrivial.add(h8([name, obs.choices]))
        rep = {"check": "C10", "spec": spec, "prefix": obs.choices}
        for kind, msg in obs.monitor:
            acc.violation(f"C10|{name}|{kind}", {"project": name, "kind": kind, "what": msg,
                                                  "exec": describe(obs, 50)}, rep)
        if obs.fault:
            acc.violation(f"C10|{name}|{obs.fault[0]}", {"project": name, "exec": describe(obs, 60)}, rep)
        if obs.error:
            acc.violation(f"C10|{name}|error", {"project": name, "exec": describe(obs, 60)}, rep)
        defers = {}
        for r in obs.reports:
            if r[0] == "DEFERRED":
                defers[r[1]] = defers.get(r[1], 0) + 1
        for label, n in defers.items():
            if n > cap:
                acc.violation(f"C10|{name}|defer-cap", {"project": name, "step": label, "deferred": n,
                                                         "cap": cap}, rep)
        acc.outcomes.setdefault(h8([name, obs.rc_class, sorted(obs.started)]), 1)
        if held:
            acc.sample({"project": name, **describe(obs, 20)})

    limit = 1 if spec.get("only_root") else None
    _, trunc = explore(lambda p: _run(spec, p), spec["bound"], visit, root=spec["root"], limit=limit)
    if trunc and not spec.get("only_root"):
        acc.caps.append(name)
    acc.extra["bound"] = spec["bound"]
    return acc


def coverage_extra(total, tier):
    return {"bound": total.extra.get("bound")}


def replay(doc):
    import json

    print(json.dumps(doc.get("what"), indent=1, default=str)[:6000])
    return 0
