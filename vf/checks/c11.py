"""C11: exactly the needed steps are executed (generated dependency graphs x target sets)."""

import itertools

from .. import hist, projects, refmodel
from ..dirx import describe, fresh_world, session
from ..explore import explore
from ..runner import Acc, h8

LEVEL = "model_checking"
RULE = (
    "all dependency graphs with up to N steps (each OPTIONAL or DEFAULT, inputs any subset of the "
    "outputs of earlier steps, declared or amended, defined by the root plan or a sub-plan) crossed "
    "with all target sets over their outputs, a directory target, and invalid targets; fresh "
    "builds, builds resumed with another target set, and rebuilds after an edit that makes the "
    "root plan run again; edit histories (breadth-first, restart builds) of projects in which a "
    "sub-plan starts or stops consuming the end of a chain of optional steps while the plan that "
    "declares the chain is skipped; the executed commands are compared with "
    "the need computed by an independent fixed-point model; non-trivial: at least one step was "
    "not needed, or a target elevated a step"
)
ASSUMPTIONS = ["schedules with at most one deviation per build", "graphs up to the stated size"]


def graphs(n):
    needs_dom = ("OPTIONAL", "DEFAULT")
    for needs in itertools.product(needs_dom, repeat=n):
        edge_choices = []
        for i in range(n):
            subs = []
            for r in range(i + 1):
                subs.extend(itertools.combinations(range(i), r))
            edge_choices.append(subs)
        for edges in itertools.product(*edge_choices):
            yield needs, edges


def out(i):
    return "o0.txt" if i == 0 else f"d/o{i}.txt"


def target_sets(n):
    outs = [out(i) for i in range(n)]
    sets = [((), ())]
    for r in range(1, n + 1):
        for c in itertools.combinations(outs, r):
            sets.append((c, ()))
    sets.append(((), ("d/",)))
    sets.append((("o0.txt",), ("d/",)))
    return sets


def jobs(tier, seed):
    n = 3 if tier == "quick" else 4
    out_jobs = []
    batch = []
    for needs, edges in graphs(n):
        for amended, subplan in ((0, 0), (1, 0), (0, 1)):
            if amended and not edges[-1]:
                continue
            if tier == "quick" and (amended or subplan) and hash((needs, edges)) % 3:
                pass
            batch.append({"needs": needs, "edges": edges, "amended": amended, "subplan": subplan})
            if len(batch) >= (6 if tier == "quick" else 4):
                out_jobs.append({"graphs": batch, "n": n, "bound": 0 if tier == "quick" else 1})
                batch = []
    if batch:
        out_jobs.append({"graphs": batch, "n": n, "bound": 0 if tier == "quick" else 1})
    out_jobs.append({"invalid": True, "n": n, "bound": 0})
    for fam in HIST_FAMILIES:
        start = {"fam": fam, "knobs": {}}
        for elabel, d in hist.knob_edits(start):
            out_jobs.append({"hist": True, "start": start, "first": (elabel, d),
                             "depth": 2 if tier == "quick" else 3})
    return out_jobs


# histories in which the need of a step changes although the plan that declares it is skipped:
# the consumers are steps of a sub-plan, of planning kind (f_planuse) or scripts (f_nested)
HIST_FAMILIES = ["f_planuse", "f_nested", "f_optional"]


def run_hist(spec):
    """After every build of an edit history (restart builds, no targets): the stored need of
    every step equals the fixed-point model, nothing outside the needed set is SUCCEEDED or has
    an output on disk, every needed step SUCCEEDED and nothing unneeded was executed."""
    acc = Acc()
    fam = spec["start"]["fam"]
    cfg = {"njob": 2}

    def visit(labels, descs, obs_list, world):
        last = obs_list[-1]
        acc.evaluations += len(obs_list)
        acc.transitions += sum(o.nev for o in obs_list)
        acc.states.add(h8([last.raw, sorted(last.fs.items())]))
        if len(obs_list) < len(descs) or last.rc_class != "success" or not last.ok():
            return
        needed = refmodel.required_steps(last, (), ())
        model = refmodel.implied_need(last, (), ())
        stale = {s: (last.db_steps[s]["implied"], v) for s, v in model.items()
                 if last.db_steps[s]["implied"] != v}
        problems = {}
        if stale:
            problems["stored_need_vs_model"] = stale
        extra = sorted(set(last.started) - needed)
        if extra:
            problems["executed_not_needed"] = extra
        notdone = sorted(s for s in needed if last.db_steps[s]["state"] != "SUCCEEDED")
        if notdone:
            problems["needed_not_succeeded"] = notdone
        left = []
        for s, st in last.db_steps.items():
            if not st["detached"] and s not in needed:
                if st["state"] == "SUCCEEDED":
                    left.append(("succeeded", s))
                left.extend(("output", p) for p in last.db_outputs.get(s, []) if p in last.fs)
        if left:
            problems["unneeded_optional_left"] = left
        if needed != refmodel.attached_steps(last):
            acc.nontrivial.add(h8([fam, labels]))
        acc.outcomes.setdefault(h8([fam, sorted(needed), bool(problems)]), 1)
        if problems:
            def violates(cand):
                w, ol = hist.run_history(cand, cfg)
                w.destroy()
                o = ol[-1]
                if len(ol) < len(cand) or o.rc_class != "success" or not o.ok():
                    return False
                nd = refmodel.required_steps(o, (), ())
                md = refmodel.implied_need(o, (), ())
                return (any(o.db_steps[s]["implied"] != v for s, v in md.items())
                        or bool(set(o.started) - nd)
                        or any(o.db_steps[s]["state"] != "SUCCEEDED" for s in nd)
                        or any(not st["detached"] and s not in nd and
                               (st["state"] == "SUCCEEDED" or any(p in o.fs for p in o.db_outputs.get(s, [])))
                               for s, st in o.db_steps.items()))

            small = hist.shrink(descs, violates)
            acc.violation(f"C11|hist|{fam}|{hist.history_label(small)}",
                          {"family": fam, "edits": labels, "minimal_history": hist.history_label(small),
                           **problems, "exec": describe(last, 30)},
                          {"check": "C11", "descs": small, "labels": labels})
        if len(acc.samples) < 2 and needed != refmodel.attached_steps(last):
            acc.sample({"family": fam, "edits": labels, "needed": sorted(needed), "executed": last.started})
        # the same state, then every plain source changes and the next build is restricted to one
        # target: only what the target (and the planning steps) require may be executed
        if problems or len(labels) > 1:
            return
        files = hist.desc_files(descs[-1])
        sources = [p for p, c in files.items() if not p.endswith("/") and c is not None
                   and not c.startswith("#!") and p in last.fs]
        outs = sorted(p for s, st in last.db_steps.items() if not st["detached"]
                      for p in last.db_outputs.get(s, []))[:3]
        for target in outs:
            w2, ol2 = hist.run_history(descs, cfg)
            try:
                if len(ol2) < len(descs) or ol2[-1].rc_class != "success":
                    continue
                for p in sources:
                    w2.write(p, files[p] + "changed\n")
                obs = hist.build(w2, descs[-1], {**cfg, "targets": [target]})
            finally:
                w2.destroy()
            acc.evaluations += len(ol2) + 1
            acc.transitions += obs.nev
            if not obs.ok():
                continue
            need_t = refmodel.required_steps(obs, (target,), ())
            extra_t = sorted(set(obs.started) - need_t)
            acc.nontrivial.add(h8([fam, labels, "target", target]))
            if extra_t:
                acc.violation(f"C11|hist-target|{fam}|{hist.history_label(descs)}|{target}",
                              {"family": fam, "edits": labels, "target": target,
                               "executed_not_required_by_the_target": extra_t,
                               "required": sorted(need_t), "exec": describe(obs, 30)},
                              {"check": "C11", "descs": descs, "labels": labels, "target": target})

    nrun, _nstates, _trunc = hist.bfs(spec["start"], spec["depth"], hist.knob_edits, visit, cfg,
                                      first=spec["first"])
    acc.count("histories", nrun)
    return acc


def build(files, targets, tdirs, prefix=(), world=None):
    w = world or fresh_world(files, "c11")
    cfg = {"njob": 2, "targets": list(targets), "target_dirs": list(tdirs)}
    return w, session(w, cfg, prefix)


def spec_required(g, targets, tdirs):
    """The steps that must run, computed from the generated graph itself (needs and edges as the
    generator chose them), not from anything the director stored."""
    needs, edges = g["needs"], g["edges"]
    n = len(needs)
    if targets or tdirs:
        req = {i for i in range(n) if out(i) in targets}
        req |= {i for i in range(n) if needs[i] == "DEFAULT" and any(out(i).startswith(d) for d in tdirs)}
    else:
        req = {i for i in range(n) if needs[i] == "DEFAULT"}
    changed = True
    while changed:
        changed = False
        for i in list(req):
            for j in edges[i]:
                if j not in req:
                    req.add(j)
                    changed = True
    return req


def label_index(label, n):
    for i in range(n):
        if label.endswith(f"-- {out(i)}") or label == f"./s{i}.py":
            return i
    return None


def check_fresh(acc, g, targets, tdirs, obs):
    needed = refmodel.required_steps(obs, targets, tdirs)
    executed = set(obs.started)
    # the same from the generator's own data: which step indices ran
    n = len(g["needs"])
    ran = {label_index(s, n) for s in obs.started} - {None}
    want = spec_required(g, targets, tdirs)
    if obs.ok() and ran != want:
        acc.violation(f"C11|{g['needs']}|{g['edges']}|a{g['amended']}s{g['subplan']}|{targets}|{tdirs}|spec",
                      {"graph": g, "targets": targets, "target_dirs": tdirs,
                       "ran_not_required": sorted(ran - want), "required_not_run": sorted(want - ran),
                       "why": "executed steps differ from the need computed from the generated graph"},
                      {"check": "C11", "graph": g, "targets": targets, "target_dirs": tdirs, "prefix": obs.choices})
    rep = {"check": "C11", "graph": g, "targets": targets, "target_dirs": tdirs, "prefix": obs.choices}
    key = f"C11|{g['needs']}|{g['edges']}|a{g['amended']}s{g['subplan']}|{targets}|{tdirs}"
    if not obs.ok():
        acc.violation(key + "|fault", {"graph": g, "exec": describe(obs)}, rep)
        return
    if executed != needed:
        acc.violation(key + "|executed-vs-needed",
                      {"graph": g, "targets": targets, "target_dirs": tdirs,
                       "executed_not_needed": sorted(executed - needed),
                       "needed_not_executed": sorted(needed - executed),
                       "model_need": refmodel.implied_need(obs, targets, tdirs)}, rep)
    for s in needed:
        if obs.db_steps[s]["state"] != "SUCCEEDED":
            acc.violation(key + "|needed-not-succeeded", {"graph": g, "step": s,
                                                            "state": obs.db_steps[s]["state"]}, rep)
    if not targets and not tdirs and obs.rc_class == "success":
        for s, st in obs.db_steps.items():
            if not st["detached"] and s not in needed:
                if st["state"] == "SUCCEEDED":
                    acc.violation(key + "|unneeded-succeeded", {"graph": g, "step": s}, rep)
                for p in obs.db_outputs.get(s, []):
                    if p in obs.fs:
                        acc.violation(key + "|unneeded-output-exists", {"graph": g, "path": p}, rep)
    all_steps = refmodel.attached_steps(obs)
    if needed != all_steps or targets or tdirs:
        acc.nontrivial.add(h8([g, targets, tdirs]))


def run_job(spec):
    if spec.get("hist"):
        return run_hist(spec)
    acc = Acc()
    n = spec["n"]
    if spec.get("invalid"):
        files = projects.f_needgraph(("DEFAULT",) * 2, ((), (0,)))
        files["plan.py"] = files["plan.py"]
        for targets, expect in ((("src.txt",), "FAILED"), (("nope.txt",), "WARNING"),
                                (("d/",), "any")):
            w, obs = build(files, targets, ())
            w.destroy()
            acc.evaluations += 1
            acc.transitions += obs.nev
            acc.nontrivial.add(h8(["invalid", targets]))
            got = obs.rc_class or ""
            if expect != "any" and expect not in got:
                acc.violation(f"C11|invalid-target|{targets}", {"targets": targets, "rc": got,
                                                                "expected_bit": expect,
                                                                "reports": [r[:2] for r in obs.reports][-6:]}, None)
        return acc
    for g in spec["graphs"]:
        files = projects.f_needgraph(g["needs"], g["edges"], g["amended"], g["subplan"])
        tsets = target_sets(len(g["needs"]))
        for targets, tdirs in tsets:
            def run(prefix, targets=targets, tdirs=tdirs):
                w, obs = build(files, targets, tdirs, prefix)
                w.destroy()
                return obs

            def visit(prefix, obs, targets=targets, tdirs=tdirs):
                acc.evaluations += 1
                acc.transitions += obs.nev
                acc.states.add(h8([obs.graph, targets, tdirs]))
                check_fresh(acc, g, targets, tdirs, obs)
                acc.outcomes.setdefault(h8([sorted(obs.started), obs.rc_class]), 1)
                if len(acc.samples) < 3 and (targets or tdirs):
                    acc.sample({"graph": g, "targets": targets, "target_dirs": tdirs,
                                "executed": obs.started, "rc": obs.rc_class})

            explore(run, spec["bound"], visit)
        # resumed with a different target set (default schedules)
        for (t1, d1), (t2, d2) in itertools.permutations(tsets[:5] + tsets[-2:], 2):
            w, o1 = build(files, t1, d1)
            w, o2 = build(files, t2, d2, world=w)
            w.destroy()
            acc.evaluations += 2
            acc.transitions += o1.nev + o2.nev
            if not (o1.ok() and o2.ok()):
                acc.violation(f"C11|{g}|resume-fault", {"graph": g, "t1": (t1, d1), "t2": (t2, d2),
                                                        "exec": describe(o2)}, None)
                continue
            needed = refmodel.required_steps(o2, t2, d2)
            extra = set(o2.started) - needed
            notdone = [s for s in needed if o2.db_steps[s]["state"] != "SUCCEEDED"]
            stale = {}
            model = refmodel.implied_need(o2, t2, d2)
            for s2, v in model.items():
                if o2.db_steps[s2]["implied"] != v:
                    stale[s2] = (o2.db_steps[s2]["implied"], v)
            leftovers = []
            if not t2 and not d2 and o2.rc_class == "success":
                for s2, st in o2.db_steps.items():
                    if not st["detached"] and s2 not in needed:
                        if st["state"] == "SUCCEEDED":
                            leftovers.append(("succeeded", s2))
                        leftovers.extend(("output", p) for p in o2.db_outputs.get(s2, []) if p in o2.fs)
            if stale or leftovers:
                acc.violation(
                    f"C11|{g['needs']}|{g['edges']}|a{g['amended']}s{g['subplan']}|resume-need|{t1}{d1}>{t2}{d2}",
                    {"graph": g, "first_targets": (t1, d1), "second_targets": (t2, d2),
                     "stored_need_vs_model": stale, "unneeded_optional_left": leftovers}, None)
            if extra or notdone:
                acc.violation(
                    f"C11|{g['needs']}|{g['edges']}|a{g['amended']}s{g['subplan']}|resume|{t1}{d1}>{t2}{d2}",
                    {"graph": g, "first_targets": (t1, d1), "second_targets": (t2, d2),
                     "executed_not_needed": sorted(extra), "needed_not_succeeded": notdone,
                     "second": describe(o2)}, None)
            acc.nontrivial.add(h8([g, "resume", t1, d1, t2, d2]))
        # the root plan is edited (a comment) and runs again after a complete build: every step
        # it defines is recycled, steps of an unchanged sub-plan come back with their creator
        files2 = projects.f_needgraph(g["needs"], g["edges"], g["amended"], g["subplan"], v=2)
        # (with 4 jobs a slot stays free next to the plan and its hash jobs, so the scheduler
        # takes decisions between the plan's requests; the source change makes every step stale)
        for nj, touch in ((1, 0), (2, 0), (4, 0), (4, 1)):
            w = fresh_world(files, "c11")
            o1 = session(w, {"njob": nj})
            w.materialize(files2)
            if touch:
                w.write("src.txt", "changed source\n")
            o2 = session(w, {"njob": nj})
            w.destroy()
            acc.evaluations += 2
            acc.transitions += o1.nev + o2.nev
            key = f"C11|{g['needs']}|{g['edges']}|a{g['amended']}s{g['subplan']}|replan|j{nj}t{touch}"
            if not (o1.ok() and o2.ok()):
                acc.violation(key + "|fault", {"graph": g, "exec": describe(o2)}, None)
                continue
            needed = refmodel.required_steps(o2, (), ())
            model = refmodel.implied_need(o2, (), ())
            stale = {s2: (o2.db_steps[s2]["implied"], v) for s2, v in model.items()
                     if o2.db_steps[s2]["implied"] != v}
            notdone = [s for s in needed if o2.db_steps[s]["state"] != "SUCCEEDED"]
            extra = sorted(set(o2.started) - needed - {"./plan.py", "./sub.py"})
            if stale or notdone or extra or o2.rc_class != o1.rc_class:
                acc.violation(key, {"graph": g, "jobs": nj, "stored_need_vs_model": stale,
                                    "needed_not_succeeded": notdone, "executed_not_needed": extra,
                                    "rc": (o1.rc_class, o2.rc_class), "second": describe(o2, 40)}, None)
            acc.nontrivial.add(h8([g, "replan", nj]))
    return acc


def replay(doc):
    import json

    print(json.dumps(doc.get("what"), indent=1, default=str)[:8000])
    return 0
