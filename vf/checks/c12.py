"""C12: job, resource and hold limits are never exceeded (DIRX, schedule DFS + occupancy monitor)."""

import itertools
import os

from .. import projects
from ..dirx import describe, fresh_world, session
from ..explore import explore, split_roots
from ..runner import Acc, h8

LEVEL = "model_checking"
RULE = (
    "every schedule with at most d deviations of each (project, jobs, resources); commands have "
    "start, action and exit as separate events; the monitor is evaluated at every command start "
    "(occupancy only changes there); a seam conformance part runs the real tool with steps whose "
    "process outlives its main script (the next command must wait for that process); "
    "non-trivial: at least two commands were running at once, a "
    "resource-limited step waited, or a step defined under hold was started"
)
ASSUMPTIONS = [
    "occupancy is checked at event granularity, exact because it only changes at command starts",
    "child processes are simulated; a command counts as running between launch and exit event",
]


POLICIES = ("thread", "fifo")


def parse_res(text):
    out = {}
    if text:
        for part in text.split(","):
            n, u = part.split(":")
            out[n] = int(u)
    return out


def declared_demands(proj):
    """Resource demands per step label as the project declares them (from the generator's own
    data, not from what the director stored)."""
    fam, knobs = proj
    if fam != "f_resmix":
        return None
    return {f"tr R{i} -- r{i}.txt": parse_res(dem) for i, dem in enumerate(knobs["demands"])}


def monitor(avail_text, njob, declared=None):
    avail = parse_res(avail_text)

    def on_start(sim, proc):
        con = sim.db._con
        running = list(sim.running.values())
        if len(running) > njob:
            sim.monitor.append(("jobs", f"{len(running)} commands running with jobs={njob}",
                                [p.label for p in running]))
        used = {}
        for p in running:
            if declared is not None and p.label in declared:
                rows = list(declared[p.label].items())
            else:
                rows = con.execute(
                    "SELECT name, units FROM step_resource JOIN node ON node.i = step_resource.node "
                    "WHERE node.kind = 'step' AND node.label = ?", (p.label,)).fetchall()
            for name, units in rows:
                used[name] = used.get(name, 0) + units
                if name not in avail and p is proc:
                    sim.monitor.append(("undefined-resource", f"{p.label} needs undefined {name}", []))
        for name, units in used.items():
            if name in avail and units > avail[name]:
                sim.monitor.append(("resource", f"{name}: {units} units in use, {avail[name]} available",
                                    [p.label for p in running]))
        for p in running:
            if p is not proc and proc.label in p.held_defs and p.hold_state.holding > 0:
                sim.monitor.append(("hold", f"{proc.label} started while its definer {p.label} holds", []))
        if len(running) >= 2:
            sim.flags.add("concurrent")
        if any(p.held_defs for p in running):
            sim.flags.add("holding")

    return on_start


def project_list(tier):
    out = []
    demand_sets = [
        ("cpu:1", "cpu:1", "cpu:1"),
        ("cpu:2", "cpu:1", "cpu:1"),
        ("cpu:1", "gpu:1", "cpu:1,gpu:1"),
        ("cpu:2", "q:1", "cpu:1"),
    ]
    if tier == "thorough":
        demand_sets += [("cpu:2", "cpu:2", "cpu:1", "cpu:1"), ("cpu:1", "", "cpu:3", "gpu:1")]
    avails = ["cpu:1", "cpu:2,gpu:1", "cpu:3,gpu:1"]
    for ds in demand_sets:
        for av in avails:
            for nj in (1, 2, 3):
                if tier == "quick" and nj == 1 and av != "cpu:1":
                    continue
                out.append((f"res:{'/'.join(ds)}@{av}j{nj}", ("f_resmix", {"demands": ds}),
                            {"njob": nj, "resources": av}, None))
    for nesting, fail, sub in itertools.product((1, 2), (0, 1), (0, 1)):
        for nj in (2, 3):
            out.append((f"hold:n{nesting}f{fail}s{sub}j{nj}",
                        ("f_hold", {"nesting": nesting, "fail": fail, "sub": sub}),
                        {"njob": nj, "resources": None}, None))
    # a resource holder that is detached while it runs (its creator fails or is re-executed)
    for kind in ("fail", "defer", "defer_changed"):
        for nj in (3, 4):
            out.append((f"resdet:{kind}j{nj}", ("f_resdetached", {"kind": kind}),
                        {"njob": nj, "resources": "gpu:1", "keep_going": True}, None))
    # steps with a stored hash whose outputs were deleted by the user: the re-check reaches them
    # through the scheduler's bypasses (no resource test, open hold ignored), so it must not run
    # anything itself
    for nj in (3, 4):
        out.append((f"lostout:res:j{nj}", ("f_resmix", {"demands": ("cpu:1", "cpu:1", "cpu:1")}),
                    {"njob": nj, "resources": "cpu:1"}, ("f_resmix", {"demands": ("cpu:1", "cpu:1", "cpu:1")}),
                    "outputs"))
        out.append((f"lostout:undef:j{nj}", ("f_resmix", {"demands": ("q:1", "cpu:1")}),
                    {"njob": nj, "resources": "cpu:1"}, ("f_resmix", {"demands": ("q:1", "cpu:1")}),
                    "outputs", {"resources": "cpu:1,q:1"}))
        # the same steps re-declared with more units of the same resource, outputs lost
        out.append((f"lostout:moreunits:j{nj}", ("f_resmix", {"demands": ("cpu:2", "cpu:2", "cpu:1")}),
                    {"njob": nj, "resources": "cpu:2"}, ("f_resmix", {"demands": ("cpu:1", "cpu:1", "cpu:1")}),
                    "outputs"))
        out.append((f"lostout:hold:j{nj}", ("f_hold", {"nesting": 2, "v": 2}),
                    {"njob": nj, "resources": None}, ("f_hold", {"nesting": 2, "v": 1}), "outputs"))
    # the plan died inside its hold block in the first build (the steps declared there are detached,
    # pending, without hash); the second build runs the repaired plan
    for nj in (2, 3, 4):
        for nesting in (1, 2):
            out.append((f"holddied:n{nesting}j{nj}", ("f_hold", {"nesting": nesting, "fail": 0, "v": 2}),
                        {"njob": nj, "resources": None}, ("f_hold", {"nesting": nesting, "fail": 1, "v": 1})))
    # a running step blocked in amend() on a file under a static tree (the director hashes it
    # first) while another step is ready and the build is at capacity
    for nj in (1, 2):
        out.append((f"treeamend:j{nj}", ("f_treeamend", {}), {"njob": nj, "resources": None}, None))
        out.append((f"pctree:j{nj}", ("f_prodcons", {"consumer": "read_first", "tree": 1}),
                    {"njob": nj, "resources": None}, None))
    # a held step with a stored hash: first build v=1 without hold semantics mattering,
    # then the plan changes (v=2) and reruns with the same step definitions under hold
    for nj in (2, 3):
        out.append((f"holdhash:j{nj}", ("f_hold", {"nesting": 2, "v": 2}),
                    {"njob": nj, "resources": None}, ("f_hold", {"nesting": 2, "v": 1})))
    return out


def _run(spec, prefix):
    name, proj, cfg, first = spec["name"], spec["proj"], dict(spec["cfg"]), spec["first"]
    fam, knobs = first or proj
    w = fresh_world(getattr(projects, fam)(**knobs))
    cfg["on_start"] = monitor(cfg.get("resources"), cfg["njob"], declared_demands(proj))
    cfg["exit_gate"] = True
    if first:
        cfg1 = dict(cfg)
        cfg1.update(spec.get("first_cfg") or {})
        cfg1["on_start"] = monitor(cfg1.get("resources"), cfg1["njob"], declared_demands(first))
        o1 = session(w, cfg1, ())
        fam, knobs = proj
        w.materialize(getattr(projects, fam)(**knobs))
        if spec.get("lose") == "outputs":
            # the user deletes every output of the first build
            for outs in o1.db_outputs.values():
                for p in outs:
                    if w.exists(p):
                        w.remove(p)
    obs = session(w, cfg, prefix)
    w.destroy()
    return obs


def jobs(tier, seed):
    out = []
    bound = 1 if tier == "quick" else 2
    out.append({"part": "seam"})
    for entry, policy in itertools.product(project_list(tier), POLICIES):
        # two base schedules: non-preemptive and oldest-event-first (maximal overlap)
        name, proj, cfg, first = entry[:4]
        name = f"{name}/{policy}"
        cfg = {**cfg, "policy": policy}
        spec = {"name": name, "proj": proj, "cfg": cfg, "first": first, "bound": bound,
                "lose": entry[4] if len(entry) > 4 else None,
                "first_cfg": entry[5] if len(entry) > 5 else None}
        if tier == "quick":
            out.append({**spec, "root": [], "only_root": False})
        else:
            obs = _run(spec, [])
            for r in split_roots(obs.points, bound):
                out.append({**spec, **r})
    return out


# ---------------------------------------------------------------------------------------------
# Seam conformance: in the closed system a command is over when `launch_command` returns. The
# real launchers must keep that promise: they may only return when the step's process is gone.
# ---------------------------------------------------------------------------------------------

SEAM_PLAN = """#!/usr/bin/env python3
from stepup.core.api import static, step
static("first.{ext}", "probe.py")
step("./first.{ext}", inp=["first.{ext}"], out=["first.out"], resources="tok:1")
step("./probe.py", inp=["probe.py"], out=["probe.out"], resources="tok:1")
"""
SEAM_PROBE = r"""#!/usr/bin/env python3
import os, time
alive = []
for name in sorted(os.listdir(".")):
    if name.endswith(".pid"):
        pid = int(open(name).read())
        try:
            os.kill(pid, 0)
            # a zombie is gone for all purposes: only a process that still runs counts
            state = open(f"/proc/{{pid}}/stat").read().rsplit(")", 1)[1].split()[0]
            if state != "Z":
                alive.append(name)
        except (ProcessLookupError, FileNotFoundError):
            pass
open("probe.out", "w").write("alive=" + ",".join(alive) + "\n")
"""
# what the first step leaves behind when its main script ends
SEAM_BEHAVIOURS = {
    "plain": ("py", "open('first.out','w').write('x')\n"),
    "thread": ("py", "import threading, time\n"
               "def work():\n    time.sleep(1.0)\n"
               "threading.Thread(target=work).start()\nopen('first.out','w').write('x')\n"),
    "executor": ("py", "import concurrent.futures, time\n"
                 "ex = concurrent.futures.ThreadPoolExecutor(1)\nex.submit(time.sleep, 1.0)\n"
                 "open('first.out','w').write('x')\n"),
    "atexit": ("py", "import atexit, time\natexit.register(time.sleep, 1.0)\n"
               "open('first.out','w').write('x')\n"),
    "shell_wait": ("sh", "echo x > first.out\n(sleep 1) &\nwait\n"),
}


def run_seam(spec, acc):
    import shutil
    import subprocess

    from ..conform import real_build
    from ..runner import scratch_dir

    for name, (ext, body) in SEAM_BEHAVIOURS.items():
        for extra in ((), ("--no-forkserver",)):
            root = scratch_dir("c12seam")
            try:
                head = "#!/usr/bin/env python3\nimport os\nopen('first.pid','w').write(str(os.getpid()))\n" \
                    if ext == "py" else "#!/bin/sh\necho $$ > first.pid\n"
                files = {"plan.py": SEAM_PLAN.format(ext=ext), f"first.{ext}": head + body,
                         "probe.py": SEAM_PROBE.replace("{{", "{").replace("}}", "}")}
                for rel, content in files.items():
                    with open(os.path.join(root, rel), "w") as fh:
                        fh.write(content)
                    os.chmod(os.path.join(root, rel), 0o755)
                try:
                    rc, _raw, text = real_build(root, njob=1, extra_args=("--resources", "tok:1", *extra))
                except subprocess.TimeoutExpired:
                    acc.violation(f"C12|seam|{name}|timeout", {"behaviour": name, "args": extra}, None)
                    continue
                acc.evaluations += 1
                acc.nontrivial.add(h8(["seam", name, extra]))
                acc.count("real_builds")
                probe = os.path.join(root, "probe.out")
                got = open(probe).read().strip() if os.path.exists(probe) else None
                if rc != 0 or got is None:
                    if "--no-forkserver" in extra and "no such option" in text.lower():
                        acc.count("no_forkserver_option_unknown")
                        continue
                    acc.violation(f"C12|seam|{name}|build-failed", {"behaviour": name, "args": extra, "rc": rc,
                                                                     "output": text[-1500:]}, None)
                elif got != "alive=":
                    acc.violation(f"C12|seam|{name}|second-command-started-while-first-process-alive",
                                  {"behaviour": name, "args": extra, "probe": got,
                                   "why": "with one job and one unit of the resource the second command "
                                          "started while the first step's process was still running"}, None)
                acc.sample({"behaviour": name, "args": extra, "probe": got}, limit=6)
            finally:
                shutil.rmtree(root, ignore_errors=True)


def run_job(spec):
    if spec.get("part") == "seam":
        acc = Acc()
        run_seam(spec, acc)
        return acc
    acc = Acc()
    name = spec["name"]

    def visit(prefix, obs):
        acc.evaluations += 1
        acc.transitions += obs.nev
        acc.states.add(h8(obs.trace))
        if obs.flags:
            acc.nontrivial.add(h8([name, obs.choices]))
        acc.outcomes.setdefault(f"{name}|{obs.rc_class}|{h8(sorted(obs.started))}", 1)
        rep = {"check": "C12", "spec": spec, "prefix": obs.choices}
        # the project that re-declares a running detached step with another signature shows the
        # recorded root cause 13 (DESIGN 6.2) under keys of its own
        changed = "defer_changed" in name
        for kind, msg, extra in obs.monitor:
            acc.violation(f"C12|{'resdet:defer_changed' if changed else name.split(':')[0]}|{kind}",
                          {"project": name, "limit": kind, "what": msg, "running": extra,
                           "exec": describe(obs)}, rep)
        if not obs.ok() or obs.exceptions:
            acc.violation(f"C12|{'resdet:defer_changed' if changed else name}|fault", {"project": name, "exec": describe(obs),
                                                  "exceptions": obs.exceptions[:2]}, rep)
        if len(acc.samples) < 3 and obs.flags:
            acc.sample({"project": name, "flags": sorted(obs.flags), **describe(obs, 14)})

    limit = 1 if spec.get("only_root") else None
    _, trunc = explore(lambda p: _run(spec, p), spec["bound"], visit, root=spec["root"], limit=limit)
    if trunc and not spec.get("only_root"):
        acc.caps.append(name)
    acc.extra["bound"] = spec["bound"]
    return acc


def coverage_extra(total, tier):
    return {"bound": total.extra.get("bound")}


def replay(doc):
    import json

    print(json.dumps(doc.get("what"), indent=1, default=str)[:5000])
    rep = doc.get("replay") or {}
    if "spec" in rep:
        obs = _run(rep["spec"], rep["prefix"])
        print("\n".join(obs.trace))
        print("monitor:", obs.monitor, "rc:", obs.rc_class)
    return 0
