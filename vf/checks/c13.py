"""C13: change detection by hashes is sound (FUNX: exhaustive small-alphabet enumeration)."""

import hashlib
import itertools
import os
import stat

from ..runner import Acc, h8, scratch_dir

LEVEL = "exploration"
RULE = (
    "(the executor's view: a real step built in the closed system under every value of its tracked variable, unset and "
    "empty included, and two modes of its script, stored input digests compared) all step configurations over a small adversarial alphabet (labels with and without workdir "
    "suffix, shell flag, input maps of up to two entries over paths x digests x modes x sizes that "
    "contain the marker byte patterns, environment maps with undefined and empty values, override "
    "maps), every insertion order of every map; distinct configurations must have distinct digests "
    "and permutations equal ones; all pairs of file contents/modes with every manipulation and "
    "mtime step for FileHash.refreshed; non-trivial: a pair of configurations that differ in exactly "
    "one ingredient, or a file manipulation that changes content, size, mode, mtime or inode"
)
ASSUMPTIONS = [
    "file digests are 32-byte values or the 1-byte unknown placeholder, as produced by the code",
    "SHA-256 is collision free on the enumerated streams (a collision would be reported as a violation)",
]

D1 = hashlib.sha256(b"1").digest()
D2 = hashlib.sha256(b"2").digest()
D3 = bytes([0, 1]) + hashlib.sha256(b"3").digest()[2:]  # a digest that starts with a marker pattern
LABELS = ("s", "s  # wd=d", "ss", "s\x01")
PATHS = ("a", "b", "ab", "a\x01b", "__env_vars__")
DIGESTS = (D1, D2, D3, b"u")
MODES = (0o100644, 0o100755, 1, 256)
SIZES = (0, 1, 256, 65537)
ENV_NAMES = ("A", "B", "AB", "__env_overrides__")
ENV_VALUES = (None, "", "x", "A")
OVR_NAMES = ("A", "B")
OVR_VALUES = ("", "x", "B", "__env_overrides__", "x B=x", " B=", "x B=", "x\x00B")  # values that spell a second assignment


def maps(keys, values, maxlen):
    yield ()
    for k in keys:
        for v in values:
            yield ((k, v),)
    if maxlen >= 2:
        for k1, k2 in itertools.combinations(keys, 2):
            for v1 in values:
                for v2 in values:
                    yield ((k1, v1), (k2, v2))


def file_values(tier):
    from stepup.core.hash import FileHash

    modes = MODES if tier == "thorough" else MODES[:3]
    sizes = SIZES if tier == "thorough" else (0, 1, 256)
    out = [FileHash.unknown()]
    for dg in DIGESTS[:3]:
        for m in modes:
            for s in sizes:
                out.append(FileHash(dg, m, 12.5, s, 7))
    return out


def run_modebits(spec, acc):
    """Every single-bit flip of a 16-bit mode (type, set-id, sticky and permission bits) of one
    input and of one output gives another digest; also every pair of the 2^k modes over the
    special bits."""
    from stepup.core.hash import FileHash, StepHash

    base = StepHash.from_inp("s", {}, {}, explained=False)
    specials = [0o4000, 0o2000, 0o1000, 0o100, 0o10, 0o1, 0o040000, 0o020000]
    modes = set()
    for m0 in (0o100644, 0o100755, 0o100600):
        modes.add(m0)
        for bit in range(16):
            modes.add(m0 ^ (1 << bit))
        for r in range(1, len(specials) + 1):
            for combo in itertools.combinations(specials, r):
                m = m0
                for b in combo:
                    m ^= b
                modes.add(m)
    seen_inp, seen_out = {}, {}
    for m in sorted(modes):
        fh = FileHash(D1, m, 1.0, 3, 1)
        di = StepHash.from_inp("s", {"a": fh}, {}, explained=False).inp_digest
        do = base.with_out_hashes({"a": fh}).out_digest
        acc.evaluations += 2
        acc.nontrivial.add(h8(["mode", m]))
        for seen, dg, what in ((seen_inp, di, "input"), (seen_out, do, "output")):
            prev = seen.setdefault(dg, m)
            if prev != m:
                acc.violation(f"C13|mode-collision|{what}|{oct(prev ^ m)}",
                              {"why": f"two {what} modes that differ share a digest", "a": oct(prev), "b": oct(m),
                               "differing_bits": oct(prev ^ m)}, None)


def run_executor(spec, acc):
    """The digests as the executor assembles and stores them: the same step built from scratch in
    the closed system under every value of its tracked variable (unset, empty, two values),
    declared and amended, and with its input in two contents and two modes. Configurations that
    differ must get different stored input digests, equal ones equal digests."""
    from .. import projects
    from ..dirx import fresh_world, session

    seen = {}
    for how in ("declared", "amended"):
        for value in (None, "", "1", "2"):
            for mode in (0o755, 0o700):
                files = projects.f_env(how=how)
                w = fresh_world(files, "c13x")
                w.chmod("e.py", mode)
                obs = session(w, {"njob": 1, "environ": {} if value is None else {"VERIF_X": value}})
                w.destroy()
                acc.evaluations += 1
                acc.transitions += obs.nev
                dg = None
                for key, lines in obs.graph or ():
                    if key == "step:./e.py":
                        dg = next((ln.split("=", 1)[1].strip() for ln in lines if "inp_digest" in ln), None)
                cfg = (how, value, mode)
                acc.nontrivial.add(h8(["executor", cfg]))
                if dg is None:
                    acc.violation(f"C13|executor|no-digest|{cfg}", {"config": cfg, "rc": obs.rc_class}, None)
                    continue
                prev = seen.setdefault((how, dg), cfg)
                if prev != cfg:
                    acc.violation(f"C13|executor|inp-collision|{how}|{sorted([repr(prev[1:]), repr(cfg[1:])])}",
                                  {"why": "two configurations of a real step share the stored input digest",
                                   "a": prev, "b": cfg, "digest": dg}, None)


def jobs(tier, seed):
    out = [{"part": "files", "tier": tier}, {"part": "json", "tier": tier}, {"part": "modebits", "tier": tier},
           {"part": "executor", "tier": tier}, {"part": "reads", "tier": tier}]
    fv = len(file_values(tier))
    # step configurations, split by (label, shell) and by slices of the input maps
    for label in LABELS:
        for shell in (False, True):
            out.append({"part": "inp", "label": label, "shell": shell, "tier": tier})
            out.append({"part": "env", "label": label, "shell": shell, "tier": tier})
    out.append({"part": "out", "tier": tier})
    return out


def canon(label, shell, inp, env, ovr):
    return (label, bool(shell),
            tuple(sorted((p, fh.digest, fh.mode, fh.size) for p, fh in inp)),
            tuple(sorted(env, key=lambda kv: kv[0])), tuple(sorted(ovr)))


def step_digest(label, shell, inp, env, ovr):
    from stepup.core.hash import StepHash

    return StepHash.from_inp(label, dict(inp), dict(env), explained=False, shell=shell,
                             env_overrides=dict(ovr)).inp_digest


def run_inp(spec, acc, seen):
    fvals = file_values(spec["tier"])
    paths = PATHS if spec["tier"] == "thorough" else PATHS[:4]
    small_env = [(), (("A", None),), (("A", ""),)]
    small_ovr = [(), (("A", ""),)]
    label, shell = spec["label"], spec["shell"]
    for inp in maps(paths, fvals, 2 if spec["tier"] == "thorough" else 1):
        for env in small_env:
            for ovr in small_ovr:
                record(acc, seen, label, shell, inp, env, ovr)
    if spec["tier"] != "thorough":
        # two-entry maps over a reduced value set
        few = [fvals[0], fvals[5], fvals[-1], fvals[len(fvals) // 2]]
        for inp in maps(paths, few, 2):
            record(acc, seen, label, shell, inp, (), ())


def run_env(spec, acc, seen):
    from stepup.core.hash import FileHash

    label, shell = spec["label"], spec["shell"]
    small_inp = [(), (("a", FileHash(D1, 0o100644, 1.0, 1, 1)),)]
    for env in maps(ENV_NAMES, ENV_VALUES, 2):
        for ovr in maps(OVR_NAMES, OVR_VALUES, 2):
            for inp in small_inp:
                record(acc, seen, label, shell, inp, env, ovr)


def record(acc, seen, label, shell, inp, env, ovr):
    dg = step_digest(label, shell, inp, env, ovr)
    c = canon(label, shell, inp, env, ovr)
    acc.evaluations += 1
    prev = seen.setdefault(dg, c)
    if prev != c:
        key = f"C13|inp-collision|{h8(repr(sorted([repr(prev), repr(c)])))}"
        # known root cause: the tracked variables and the overrides are two flat sequences of
        # (str, str) words separated by the marker word __env_overrides__; a tracked variable
        # with that very name (or an override with that value) imitates the section boundary
        words = [w for cfg in (prev, c) for kv in list(cfg[3]) + list(cfg[4]) for w in kv]
        if "__env_overrides__" in words and prev[:3] == c[:3]:
            key = "C13|inp-collision|marker-word-as-variable-name-or-override-value"
        acc.violation(key,
                      {"why": "two different step configurations share an input digest",
                       "a": repr(prev), "b": repr(c)}, None)
    # permutations of every map give the same digest
    if len(inp) > 1 or len(env) > 1 or len(ovr) > 1:
        dg2 = step_digest(label, shell, tuple(reversed(inp)), tuple(reversed(env)), tuple(reversed(ovr)))
        acc.evaluations += 1
        acc.nontrivial.add(h8(repr(c)))
        if dg2 != dg:
            acc.violation(f"C13|order-dependent|{h8(repr(c))}",
                          {"why": "digest depends on the order of ingredients", "config": repr(c)}, None)
    acc.extra.setdefault("digests", {})[dg.hex()[:24]] = h8(repr(c))


def run_out(spec, acc):
    from stepup.core.hash import StepHash

    fvals = file_values(spec["tier"])
    base = StepHash.from_inp("s", {}, {}, explained=False)
    seen = {}
    for out in maps(PATHS, fvals, 2 if spec["tier"] == "thorough" else 1):
        dg = base.with_out_hashes(dict(out)).out_digest
        c = tuple(sorted((p, fh.digest, fh.mode, fh.size) for p, fh in out))
        acc.evaluations += 1
        prev = seen.setdefault(dg, c)
        if prev != c:
            acc.violation(f"C13|out-collision|{h8(repr(sorted([repr(prev), repr(c)])))}",
                          {"a": repr(prev), "b": repr(c)}, None)
        if len(out) > 1:
            acc.nontrivial.add(h8(repr(c)))
            if base.with_out_hashes(dict(reversed(out))).out_digest != dg:
                acc.violation(f"C13|out-order|{h8(repr(c))}", {"config": repr(c)}, None)
    acc.states |= {h8(k) for k in list(seen)[:50000]}


def run_json(spec, acc):
    from stepup.core.hash import FileHash, StepHash

    for fh in [*file_values("thorough"), FileHash(D1, 0o100644, 1e9 + 0.123456, 5, 2**40 + 3),
               FileHash(D2, 0o100644, 0.000001, 0, 1), FileHash.unknown()]:
        back = FileHash.from_json(fh.to_json())
        acc.evaluations += 1
        fields = lambda h: (h.digest, h.mode, h.mtime, h.size, h.inode)  # noqa: E731
        if fields(back) != fields(fh):
            acc.violation(f"C13|json-filehash|{fields(fh)}", {"before": repr(fields(fh)), "after": repr(fields(back))}, None)
        acc.nontrivial.add(h8(repr(fields(fh))))
    inp = {"a": FileHash(D1, 0o100644, 3.25, 1, 9), "a\x01b": FileHash(D3, 1, 0.5, 256, 2)}
    for explained in (False, True):
        for env in ({}, {"A": None, "B": ""}):
            sh = StepHash.from_inp("s  # wd=d", inp, env, explained=explained, shell=True,
                                   env_overrides={"A": "x"})
            for with_out in (False, True):
                cur = sh.with_out_hashes(inp) if with_out else sh
                back = StepHash.from_json(cur.to_json())
                acc.evaluations += 1
                same = (back.inp_digest == cur.inp_digest and back.out_digest == cur.out_digest
                        and (back.inp_info is None) == (cur.inp_info is None))
                if same and cur.inp_info is not None:
                    for p, fh in cur.inp_info.inp_hashes.items():
                        b = back.inp_info.inp_hashes[p]
                        same = same and (b.digest, b.mode, b.mtime, b.size, b.inode) == (
                            fh.digest, fh.mode, fh.mtime, fh.size, fh.inode)
                    same = same and back.inp_info.env_values == cur.inp_info.env_values
                    same = same and back.inp_info.env_overrides == cur.inp_info.env_overrides
                if not same:
                    acc.violation(f"C13|json-stephash|{explained}|{with_out}", {"before": repr(cur), "after": repr(back)}, None)


def run_files(spec, acc):
    from stepup.core.hash import FileHash

    root = scratch_dir("c13")
    contents = (b"", b"x", b"y", b"xy")
    modes = (0o644, 0o755)
    steps = (0.0, 1e-6, 1e-3, 1.0)
    manips = ("rewrite", "rename", "touch", "chmod", "truncate_restore")
    t0 = 1_600_000_000.0
    n = 0
    for c1, c2 in itertools.product(contents, repeat=2):
        for m1, m2 in itertools.product(modes, repeat=2):
            for manip in manips:
                for dt in steps:
                    n += 1
                    path = os.path.join(root, f"f{n}")
                    with open(path, "wb") as fh:
                        fh.write(c1)
                    os.chmod(path, m1)
                    os.utime(path, (t0, t0))
                    old = FileHash.unknown().refreshed(path)
                    st1 = os.stat(path)
                    same_obj = old.refreshed(path)
                    acc.evaluations += 1
                    if same_obj is not old:
                        acc.violation("C13|refresh-unchanged-not-same", {"content": repr(c1)}, None)
                    if manip == "rewrite":
                        with open(path, "wb") as fh:
                            fh.write(c2)
                        os.utime(path, (t0 + dt, t0 + dt))
                    elif manip == "rename":
                        tmp = path + ".new"
                        with open(tmp, "wb") as fh:
                            fh.write(c2)
                        os.chmod(tmp, m1)
                        os.utime(tmp, (t0 + dt, t0 + dt))
                        os.replace(tmp, path)
                    elif manip == "touch":
                        os.utime(path, (t0 + dt, t0 + dt))
                    elif manip == "chmod":
                        os.chmod(path, m2)
                    elif manip == "truncate_restore":
                        with open(path, "wb") as fh:
                            fh.write(c2)
                        os.utime(path, (t0, t0))
                    st2 = os.stat(path)
                    with open(path, "rb") as fh:
                        now = fh.read()
                    new = old.refreshed(path)
                    acc.evaluations += 1
                    semantic_change = (now != c1) or (st2.st_size != st1.st_size) or (st2.st_mode != st1.st_mode)
                    stat_change = ((st2.st_mtime != st1.st_mtime) or (st2.st_size != st1.st_size)
                                   or (st2.st_ino != st1.st_ino) or (st2.st_mode != st1.st_mode))
                    case = {"before": repr(c1), "after": repr(now), "mode": (oct(m1), oct(st2.st_mode)),
                            "manipulation": manip, "mtime_step": dt}
                    if semantic_change or stat_change:
                        acc.nontrivial.add(h8(case))
                    if semantic_change and stat_change and new == old:
                        acc.violation(f"C13|change-not-reported|{manip}|{dt}|{c1!r}>{c2!r}",
                                      {"why": "content/size/mode changed and the stat tuple differs, "
                                              "yet refreshed() reports no change", **case}, None)
                    if not semantic_change and new != old:
                        acc.violation(f"C13|spurious-change|{manip}|{dt}", case, None)
                    if new != old:
                        exp = hashlib.sha256(now).digest()
                        if new.digest != exp or new.size != len(now) or new.mode != st2.st_mode:
                            acc.violation(f"C13|wrong-new-hash|{manip}", case, None)
                    acc.sample(case)
                    os.remove(path)


def compositions(n, maxpart):
    """All ways to read n bytes in pieces of 1..maxpart bytes."""
    if n == 0:
        yield ()
        return
    for k in range(1, min(n, maxpart) + 1):
        for rest in compositions(n - k, maxpart):
            yield (k, *rest)


def run_reads(spec, acc):
    """The digest of a file does not depend on how the operating system hands out its bytes:
    with the chunk size rebound to 4, contents of 0..N bytes are served by a file object whose
    every `readinto` returns the next piece of an enumerated composition (short reads before the
    end of the file are what pipes, FUSE and network file systems do); every composition must
    give the SHA-256 of the whole content, and a cancellation between any two reads must raise."""
    import hashlib
    import threading

    from stepup.core import hash as su_hash
    from stepup.core.exceptions import HashCancelledError

    chunk = 4
    top = 9 if spec["tier"] == "quick" else 12
    saved_chunk = su_hash.HASH_CHUNK_SIZE
    root = scratch_dir("c13r")
    path = os.path.join(root, "f")

    class Served:
        def __init__(self, data, pieces, cancel_after=None, event=None):
            self.data, self.pieces, self.pos, self.i = data, list(pieces), 0, 0
            self.cancel_after, self.event = cancel_after, event

        def __enter__(self):
            return self

        def __exit__(self, *exc):
            return False

        def readinto(self, buf):
            if self.cancel_after is not None and self.i == self.cancel_after:
                self.event.set()
            want = self.pieces[self.i] if self.i < len(self.pieces) else 0
            self.i += 1
            n = min(want, len(buf), len(self.data) - self.pos)
            buf[:n] = self.data[self.pos : self.pos + n]
            self.pos += n
            return n

    try:
        su_hash.HASH_CHUNK_SIZE = chunk
        for n in range(top + 1):
            data = bytes(range(1, n + 1))
            with open(path, "wb") as fh:
                fh.write(data)
            want = hashlib.sha256(data).digest()
            for pieces in compositions(n, chunk):
                su_hash.open = lambda p, mode="rb", buffering=-1, pieces=pieces, data=data: Served(data, pieces)
                acc.evaluations += 1
                if any(k < chunk for k in pieces[:-1]):
                    acc.nontrivial.add(h8(["reads", n, pieces]))
                got = su_hash.compute_file_digest(path)
                acc.states.add(h8([n, pieces]))
                if got != want:
                    hashed = next((m for m in range(n + 1) if hashlib.sha256(data[:m]).digest() == got), None)
                    acc.violation("C13|short-read|digest-of-a-prefix" if hashed is not None
                                  else f"C13|short-read|{n}|{pieces}",
                                  {"why": "the digest depends on how the bytes were handed out",
                                   "size": n, "reads": pieces, "bytes_hashed": hashed}, None)
            # cancellation between any two reads
            pieces = next(iter(compositions(n, chunk)), ())
            for cut in range(len(pieces) + 1):
                ev = threading.Event()
                su_hash.open = lambda p, mode="rb", buffering=-1, pieces=pieces, data=data, cut=cut, ev=ev: Served(
                    data, pieces, cut, ev)
                acc.evaluations += 1
                try:
                    su_hash.compute_file_digest(path, cancel_event=ev)
                    # the event was set during the last read (end of file): finishing is fine
                    if cut < len(pieces):
                        acc.violation(f"C13|cancel-ignored|{n}|{cut}", {"size": n, "cancelled_before_read": cut}, None)
                except HashCancelledError:
                    pass
    finally:
        su_hash.HASH_CHUNK_SIZE = saved_chunk
        if "open" in vars(su_hash):
            del su_hash.open


def run_job(spec):
    acc = Acc()
    seen = {}
    if spec["part"] == "reads":
        run_reads(spec, acc)
        return acc
    if spec["part"] == "inp":
        run_inp(spec, acc, seen)
    elif spec["part"] == "env":
        run_env(spec, acc, seen)
    elif spec["part"] == "out":
        run_out(spec, acc)
    elif spec["part"] == "json":
        run_json(spec, acc)
    elif spec["part"] == "files":
        run_files(spec, acc)
    elif spec["part"] == "modebits":
        run_modebits(spec, acc)
    elif spec["part"] == "executor":
        run_executor(spec, acc)
    if seen:
        # one-ingredient neighbours are the non-trivial pairs: count configurations
        acc.nontrivial |= {h8(k) for k in list(seen)[:20000]}
        acc.sample({"config": repr(next(iter(seen.values())))[:300]})
    return acc


def finish(total, tier, seed):
    # collisions across jobs (different label/shell): digests keyed globally
    total.extra.pop("digests", None)


def coverage_extra(total, tier):
    return {"explanation": "input-digest injectivity is checked within each (label, shell) slice and, "
                           "because label and shell are hashed first, across slices by the same stream argument"}


def replay(doc):
    import json

    print(json.dumps(doc.get("what"), indent=1, default=str)[:4000])
    return 0
