"""C14: a watch-mode rebuild is equivalent to a restart (DIRX with the real kernel inotify)."""

import itertools
import os

from .. import canon, hist, projects
from ..dirx import Obs, describe, fresh_world, session
from ..explore import explore
from ..harness import Deadlock, EnvEvent, Horizon, PrefixChooser, Sim
from ..runner import Acc, h8
from .c01 import _files_only, _norm_graph

LEVEL = "model_checking"
RULE = (
    "for each project (named glob over a static tree or a static pattern, sub-plan with a static "
    "tree, chain with a nested source directory) all sequences of up to N file system operations "
    "(create, modify, delete, delete and recreate, modify and restore, rmdir with its files, mkdir "
    "and populate, rename directory, rename file, on sources, outputs, matched paths, tree files "
    "and their directories) are applied while the director watches, and single operations on "
    "static files at every event of the preceding build, and sequences that span two watch "
    "phases with a rebuild in between (a globbing step that stays pending), and bursts in which "
    "operations and the rebuild request follow each other without waiting for the watcher to "
    "finish reporting (changes still queued inside the director); then `rebuild` is compared with stopping "
    "the director and starting a new one on the same tree and database; the kernel's real inotify "
    "delivers the events, only their delivery moments are explored; non-trivial: at least one "
    "operation touched a path the workflow knows"
)
ASSUMPTIONS = [
    "the real Linux inotify is inside the closed system, read without blocking; queue overflow is not reached",
    "a rebuild is requested only after every kernel event has been handed to the director (as "
    "`stepup wait` does); in the burst runs it may still be queued inside the director",
]

PROJECTS = {
    "glob_tree": ("f_glob", {"mode": "tree"}),
    "glob_pattern": ("f_glob", {"mode": "pattern"}),
    "subplan_tree": ("f_subplan", {"inputs": "explicit"}),
    "chain": ("f_chain", {}),
    "glob_cfg": ("f_glob", {"mode": "tree", "cfg": 1}),
    "glob_missing": ("f_glob", {"nest": 1}),
    "glob_deep": ("f_glob", {"deep": 1}),
    "glob_names": ("f_glob", {"mode": "names", "cfg": 1}),
    "recycled_out": ("f_vol", {"log": "none"}),
    "glob_multi": ("f_glob", {"mode": "multi"}),
    "scratch": ("f_scratch", {"stage": 1}),
}
# builds (restarts, no watching) that precede the watch session: here the plan ran again and
# failed, so the step and its output are detached in the database when the watch session starts
# with the repaired plan, which recycles and skips the step
PRELUDES = {
    "recycled_out": [("f_vol", {"log": "none"}), ("f_vol", {"log": "none", "broken": 1})],
}
# sequences over several watch phases: ("REBUILD",) asks for a rebuild in between, in both variants
MULTI_PHASE = {
    # plan edits between watch phases: ("plan", family, knobs) rewrites the project files
    "scratch": [
        [("plan", "f_scratch", '{"stage": 2}'), ("REBUILD",), ("plan", "f_scratch", '{"stage": 3}')],
        [("plan", "f_scratch", '{"stage": 3}'), ("REBUILD",), ("plan", "f_scratch", '{"stage": 2}')],
        [("plan", "f_scratch", '{"stage": 2}'), ("REBUILD",), ("plan", "f_scratch", '{"stage": 1}')],
        [("plan", "f_scratch", '{"stage": 2}'), ("REBUILD",), ("plan", "f_scratch", '{"stage": 3}'), ("REBUILD",),
         ("modify", "src.txt")],
    ],
    "glob_cfg": [
        [("delete", "cfg.txt"), ("create", "data/c.txt"), ("REBUILD",), ("restore", "cfg.txt")],
        [("create", "data/c.txt"), ("delete", "cfg.txt"), ("REBUILD",), ("restore", "cfg.txt")],
        [("delete", "cfg.txt"), ("delete", "data/a.txt"), ("REBUILD",), ("restore", "cfg.txt")],
        [("delete", "cfg.txt"), ("REBUILD",), ("create", "data/c.txt"), ("restore", "cfg.txt")],
        [("delete", "cfg.txt"), ("REBUILD",), ("restore", "cfg.txt"), ("create", "data/c.txt")],
        [("modify", "cfg.txt"), ("create", "data/c.txt"), ("REBUILD",), ("restore", "cfg.txt")],
    ],
}
TARGETS = {
    "glob_missing": {"files": ["data/raw/a.txt", "data/raw/b.txt", "data/x.txt"], "dirs": ["data", "data/raw"]},
    "glob_cfg": {"files": ["cfg.txt", "data/a.txt", "data/c.txt"], "dirs": ["data"]},
    "glob_names": {"files": ["data/a.txt", "data/b.txt", "data/c.txt"], "dirs": ["data"]},
    "recycled_out": {"files": ["out/deep/o.txt", "src.txt"], "dirs": ["out/deep", "out"]},
    "glob_multi": {"files": ["data/a/inp.txt", "data/c/inp.txt"], "dirs": ["data/a", "data/c", "data"]},
    "scratch": {"files": ["src.txt", "o.txt"], "dirs": []},
    "glob_deep": {"files": ["src/pkg/mod/a.txt", "src/pkg/mod/c.txt"], "dirs": ["src/pkg", "src/pkg/mod"]},
    "glob_tree": {"files": ["data/a.txt", "data/c.txt", "out/a.out"], "dirs": ["data", "out"]},
    "glob_pattern": {"files": ["data/a.txt", "data/c.txt", "out/b.out"], "dirs": ["data"]},
    "subplan_tree": {"files": ["sub/data/in.txt", "sub/out/s.txt"], "dirs": ["sub/data", "sub/out"]},
    "chain": {"files": ["src.txt", "a.txt", "c.txt"], "dirs": []},
}


def new_directory_root_cause(files, ops, problems):
    """Known root cause: a directory that did not exist when the watch session started is created
    at a wildcard level of a registered pattern (data/c/ for data/${*n}/inp.txt). The low-level
    watcher ignores a new directory it was never asked to watch, so the files in it are not seen
    until the next restart. True when every difference is about such a directory or about the
    step and output made for it."""
    import os

    initial_dirs = set()
    for p in files:
        d = os.path.dirname(p.rstrip("/"))
        while d and d not in initial_dirs:
            initial_dirs.add(d)
            d = os.path.dirname(d)
    new_dirs = {os.path.dirname(op[1]) for op in ops
                if len(op) > 1 and op[0] in ("create", "modify", "recreate", "modify_restore", "restore")
                and os.path.dirname(op[1]) and os.path.dirname(op[1]) not in initial_dirs}
    # a directory renamed to a new name at the wildcard level is a new directory too
    new_dirs |= {op[2] for op in ops if op[0] == "rename" and os.path.dirname(op[2]) in initial_dirs
                 and op[1] in initial_dirs | new_dirs and op[2] not in initial_dirs}
    if not new_dirs or "returncode" in problems:
        return False
    names = {os.path.basename(d) for d in new_dirs}

    def about(text):
        return any(f"{d}/" in text for d in new_dirs) or any(f"/{n}.out" in "/" + text for n in names)

    if not all(about(k) for k in problems.get("files", {})):
        return False
    def node_ok(node):
        # the tree that owns the new directory and the plan that globs (their product lists and
        # recorded matches differ as a consequence)
        if node.startswith("st:"):
            return any((d + "/").startswith(node[3:]) for d in new_dirs)
        return node == "step:./plan.py" or about(node)

    return all(node_ok(str(d.get("node", ""))) for d in problems.get("graph", []))


def projects_files(name):
    fam, knobs = PROJECTS[name]
    return getattr(projects, fam)(**knobs)


def op_menu(name):
    t = TARGETS[name]
    ops = []
    for f in t["files"]:
        ops += [("modify", f), ("delete", f), ("recreate", f), ("modify_restore", f)]
    for f in t["files"][:2]:
        ops.append(("rename", f, f + ".moved"))
    # a file replaced by a directory of the same name
    ops.append(("to_dir", t["files"][0]))
    for d in t["dirs"]:
        ops += [("rmtree", d), ("rename", d, d + "_moved"), ("populate", d)]
    return ops


def apply_op(world, op, originals):
    kind, path = op[0], op[1]
    if kind in ("restore", "create", "modify", "recreate", "modify_restore") and os.path.isdir(world.abspath(path)):
        # the path was turned into a directory by an earlier operation: the user puts a file
        # back in its place
        world.remove(path)
    if kind == "restore":
        world.write(path, originals[path])
    elif kind == "create":
        world.write(path, f"created by the user ({path})\n")
    elif kind == "modify":
        world.write(path, f"modified by the user ({path})\n")
    elif kind == "delete":
        if world.exists(path):
            world.remove(path)
    elif kind == "recreate":
        if world.exists(path):
            data = world.read(path)
            world.remove(path)
            world.write(path, data)
        else:
            world.write(path, "created\n")
    elif kind == "modify_restore":
        if world.exists(path):
            data = world.read(path)
            world.write(path, b"temporary")
            world.write(path, data)
        else:
            world.write(path, "x")
            world.remove(path)
    elif kind == "rename":
        if world.exists(path) and not world.exists(op[2]):
            world.rename(path, op[2])
    elif kind == "plan":
        import json

        new = getattr(projects, op[1])(**json.loads(op[2]))
        hist.sync(world, getattr(world, "cur_files", originals), new)
        world.cur_files = new
    elif kind == "to_dir":
        if world.exists(path):
            world.remove(path)
        world.mkdir(path)
        world.write(f"{path}/inside.txt", "inside\n")
    elif kind == "rmtree":
        if world.exists(path):
            world.remove(path)
    elif kind == "populate":
        world.mkdir(path)
        world.write(f"{path}/new1.txt", "new one\n")
        world.write(f"{path}/c.txt", "new c\n")
    else:
        raise ValueError(op)


def watch_run(files, cfg, ops, prefix, during_build=False, mode="rebuild", eager=False, prelude=None):
    """Build in watch mode and apply ops; then either `rebuild` in the living director, or shut it
    down and start a new director on the same tree and database (mode="restart")."""
    if prelude:
        prev = None
        for fam, knobs in prelude:
            cur = getattr(projects, fam)(**knobs)
            if prev is None:
                w = fresh_world(cur, "c14w")
            else:
                hist.sync(w, prev, cur)
            session(w, {"njob": cfg["njob"]})
            prev = cur
        hist.sync(w, prev, files)
    else:
        w = fresh_world(files, "c14w")
    state = {"i": 0, "stage": "ops", "fork": None}

    def env(sim):
        h = sim.handler
        if h is None or h.watcher is None:
            return []
        # eager: the user does not wait for the watcher to finish reporting a change before the
        # next operation or the rebuild; only the kernel events must have been handed over
        quiet = h.watcher.busy_watching.is_set() and not any(not g.fut.done() for g in sim.gates)
        busy = quiet or (eager and h.watcher.busy_watching.is_set())
        nwatch = sum(1 for r in sim.reports if r[0] == "PHASE" and r[1] == "watch")
        if state["stage"] == "midbuild":
            if quiet and nwatch > state["nwatch"] and sim.inotify_idle():
                state["stage"] = "ops"
            else:
                return []
        if state["stage"] == "ops":
            allowed = (busy and sim.inotify_idle()) or (during_build and len(sim.running) > 0)
            if state["i"] < len(ops) and ops[state["i"]][0] == "REBUILD":
                if busy and sim.inotify_idle():
                    def mid(s):
                        state["i"] += 1
                        state["stage"] = "midbuild"
                        state["nwatch"] = nwatch
                        s.loop.create_task(s.handler.start_build_phase())
                    return [EnvEvent("rebuild (between two watch phases)", mid)]
                return []
            if state["i"] < len(ops) and allowed:
                def fn(s):
                    apply_op(s.world, ops[state["i"]], files)
                    s.flags.add("op-during-build" if not s.handler.watcher.busy_watching.is_set() else "op-watch")
                    state["i"] += 1
                return [EnvEvent(f"op {ops[state['i']]}", fn)]
            if state["i"] >= len(ops) and busy and sim.inotify_idle():
                def fn(s):
                    state["fork"] = len(s.points)
                    if mode == "restart":
                        state["stage"] = "down"
                        s.loop.create_task(s.handler.shutdown())
                        return
                    state["stage"] = "rebuilt"
                    state["nwatch"] = nwatch
                    s.loop.create_task(s.handler.start_build_phase())
                return [EnvEvent("rebuild" if mode == "rebuild" else "shutdown-instead", fn)]
        elif state["stage"] == "rebuilt":
            if quiet and nwatch > state["nwatch"] and sim.inotify_idle():
                def fn(s):
                    state["stage"] = "down"
                    s.final_graph = s.graph_text()
                    s.final_rc = s.handler.builder.returncode
                    s.loop.create_task(s.handler.shutdown())
                return [EnvEvent("shutdown", fn)]
        return []

    # eager runs use the stalled-terminal base schedule: kernel events are handed over and the
    # user acts while the watcher still waits for the terminal to take its first report
    sim = Sim(w, njob=cfg["njob"], do_watch=True, env_events=env, horizon=5000, env_first=eager,
              **({"policy": "slowrep"} if eager else {}))
    sim.start()
    fault = None
    try:
        try:
            sim.run(PrefixChooser(prefix))
        except Deadlock as exc:
            fault = ("deadlock", str(exc), state["stage"])
        except Horizon as exc:
            fault = ("horizon", str(exc))
        obs = Obs(sim, fault)
        obs.watch_graph = getattr(sim, "final_graph", None)
        obs.watch_rc = getattr(sim, "final_rc", None)
        obs.fork = state["fork"]
    finally:
        sim.close()
    if mode == "restart" and fault is None and obs.error is None:
        second = session(w, {"njob": cfg["njob"]})
        second.fork = obs.fork
        second.first = obs
        w.destroy()
        return second
    w.destroy()
    return obs


def restart_run(files, cfg, ops):
    w = fresh_world(files, "c14r")
    o1 = session(w, {"njob": cfg["njob"]})
    for op in ops:
        apply_op(w, op, files)
    o2 = session(w, {"njob": cfg["njob"]})
    w.destroy()
    return o1, o2


def jobs(tier, seed):
    n = 1 if tier == "quick" else 2
    out = []
    for name in PROJECTS:
        menu = op_menu(name)
        seqs = [[op] for op in menu]
        if tier == "quick":
            seqs += [[a, b] for a, b in itertools.product(menu[:8], repeat=2) if a != b][:40]
        else:
            seqs += [[a, b] for a, b in itertools.product(menu, repeat=2) if a != b]
        chunk = 6
        for lo in range(0, len(seqs), chunk):
            out.append({"name": name, "seqs": seqs[lo : lo + chunk], "bound": 0 if tier == "quick" else 1,
                        "during_build": False})
        # bursts: operations and the rebuild follow each other without waiting for the watcher
        burst = [[a, b] for a, b in itertools.product(menu[:6], repeat=2) if a != b][: (20 if tier == "quick" else 200)]
        burst += [[a, b, c] for a, b, c in itertools.product(menu[:4], repeat=3) if len({a, b, c}) == 3][: (10 if tier == "quick" else 100)]
        for lo in range(0, len(burst), chunk):
            out.append({"name": name, "seqs": burst[lo : lo + chunk], "bound": 0, "during_build": False, "eager": True})
        # two watch phases: something disappears, a rebuild, and it comes back (the same content
        # or new content; a directory moved away and moved back)
        two = list(MULTI_PHASE.get(name, []))
        orig = projects_files(name)
        for f in TARGETS[name]["files"]:
            if f in orig:
                two.append([("delete", f), ("REBUILD",), ("restore", f)])
            two.append([("delete", f), ("REBUILD",), ("create", f)])
        for d in TARGETS[name]["dirs"]:
            two.append([("rename", d, d + "_moved"), ("REBUILD",), ("rename", d + "_moved", d)])
        for lo in range(0, len(two), chunk):
            out.append({"name": name, "seqs": two[lo : lo + chunk], "bound": 0 if tier == "quick" else 1,
                        "during_build": False})
        # single operations on static (source) files while the first build is still running
        src_ops = [op for op in menu if op[1] in TARGETS[name]["files"][:2] and op[0] in ("modify", "delete", "recreate")]
        out.append({"name": name, "seqs": [[op] for op in src_ops], "bound": 1, "during_build": True})
    return out


_restart_cache = {}


def run_job(spec):
    acc = Acc()
    name = spec["name"]
    fam, knobs = PROJECTS[name]
    files = getattr(projects, fam)(**knobs)
    cfg = {"njob": 2}
    for ops in spec["seqs"]:
        ops = [tuple(o) for o in ops]
        def run(prefix, ops=ops):
            return watch_run(files, cfg, ops, prefix, spec["during_build"], eager=spec.get("eager", False),
                             prelude=PRELUDES.get(name))

        def visit(prefix, obs, ops=ops):
            ref = None
            if obs.fork is not None:
                ref = watch_run(files, cfg, ops, obs.choices[: obs.fork], spec["during_build"], mode="restart",
                                eager=spec.get("eager", False), prelude=PRELUDES.get(name))
                acc.evaluations += 1
                if ref.fork != obs.fork:
                    acc.violation(f"C14|{name}|harness-fork-divergence", {"ops": ops, "a": obs.fork, "b": ref.fork}, None)
                    return
            acc.evaluations += 1
            acc.transitions += obs.nev
            acc.states.add(h8([name, ops, obs.trace[-30:]]))
            acc.nontrivial.add(h8([name, ops, obs.choices if spec["during_build"] else 0]))
            rep = {"check": "C14", "name": name, "ops": ops, "prefix": obs.choices}
            key = f"C14|{name}|{'>'.join(' '.join(o) for o in ops)}"
            if spec["during_build"] and "op-during-build" not in obs.flags:
                return
            if not obs.ok() or ref is None or not ref.ok():
                acc.violation(key + "|fault", {"project": name, "ops": ops, "exec": describe(obs, 80),
                                               "restart": describe(ref, 40) if ref is not None else None}, rep)
                return
            wg = canon.canon_graph(obs.watch_graph) if obs.watch_graph else None
            problems = {}
            wrc = obs.watch_rc
            from ..harness import rc_class
            if rc_class(wrc) != ref.rc_class:
                problems["returncode"] = {"rebuild": rc_class(wrc), "restart": ref.rc_class}
            a, b = _files_only(obs.fs), _files_only(ref.fs)
            if a != b:
                problems["files"] = {k: (a.get(k), b.get(k)) for k in sorted(set(a) | set(b)) if a.get(k) != b.get(k)}
            if wg is not None and ref.graph is not None:
                ga = _norm_graph(canon.attached_graph(obs.watch_graph))
                gb = _norm_graph(ref.attached)
                if ga != gb:
                    problems["graph"] = canon.diff_graphs(ga, gb, 5)
            if problems:
                if any(op[0] == "to_dir" for op in ops):
                    # known root cause: the watcher reports the file as deleted and the rebuild
                    # goes on without it, the start-up scan of a restart cannot hash a
                    # directory, reports an error and drains
                    key = "C14|new-directory-named-like-a-tracked-file"
                    problems = dict(problems)
                elif name == "glob_multi" and new_directory_root_cause(files, ops, problems):
                    key = "C14|new-directory-at-a-wildcard-level-of-a-pattern-is-not-watched"
                    problems = dict(problems)
                acc.violation(key + ("" if key.startswith("C14|new-directory") else "|" + "+".join(sorted(problems))),
                              {"project": name, "operations": ops, "during_build": spec["during_build"],
                               "rebuild_vs_restart": problems,
                               "watcher_reports": [r[:2] for r in obs.reports if r[0] in ("UPDATED", "DELETED", "UNCHANGED")][-12:],
                               "rebuild_started": [r[2] for r in obs.log if r[1] == "START"][-6:],
                               "restart_started": ref.started}, rep)
            acc.outcomes.setdefault(h8([name, rc_class(wrc), bool(problems)]), 1)
            if len(acc.samples) < 3:
                acc.sample({"project": name, "operations": ops,
                            "watcher": [r[:2] for r in obs.reports if r[0] in ("UPDATED", "DELETED")][-6:]})

        # Deviations are explored up to the fork only: after it both variants follow the default
        # schedule, so that scheduling effects of the rebuild itself (C02's subject) cancel out.
        root = run([])
        visit([], root)
        if spec["bound"] >= 1 and root.fork is not None:
            count = 0
            for i in range(min(root.fork, len(root.points))):
                for alt in range(1, root.points[i][0]):
                    count += 1
                    if count > 300:
                        break
                    prefix = [c for _, c in root.points[:i]] + [alt]
                    visit(prefix, run(prefix))
    return acc


def replay(doc):
    import json

    print(json.dumps(doc.get("what"), indent=1, default=str)[:8000])
    return 0
