"""C15: requests that change the workflow are applied atomically (OPX + concurrent mixes + RPCX)."""

import asyncio
import itertools

from .. import opx
from ..runner import Acc, h8
from .c09 import CORE_MENU

LEVEL = "model_checking"
RULE = (
    "(a) from every state of the OPX search every request of the menu is sent, including those "
    "that fail late (cycle closed by the last input, collision on the second path, glob match on "
    "the second output, malformed arguments): a rejected request must leave every table and the "
    "file system exactly as before; (b) with two and three commands running, request mixes are "
    "submitted together in every arrival order and compared with the same requests sent one after "
    "the other; (d) after every rejected request, every follow-up request of the same command has "
    "the same reply and the same effect as without the rejected one; (c) a request is delivered in full to a real RPCServerConnection serving the real "
    "DirectorHandler while another task holds the database, the peer's EOF is injected at every "
    "later point, then the database is released; non-trivial: a rejected request, a concurrent "
    "mix, or a disconnect"
)
ASSUMPTIONS = [
    "a transaction is the atom: SQLite's rollback is trusted",
    "hash gates follow the default policy between requests",
]

# a step whose input nothing declares (so that a later step can try to build it)
UNDECL_STEP = opx.step_req("s4", ["u"], ["v"])

LATE_FAILURES = [
    # collision on the second path, cycle closed by the last input, glob match on the second output
    opx.step_req("s2", ["a"], ["x1", "b"]),
    # a cycle closed by the last OUTPUT, after the step node, its input edge and its first output
    # were written: s4 reads u and writes v, s5 reads v and wants to write w and u
    opx.step_req("s5", ["v"], ["w", "u"]),
    opx.step_req("s2", ["a", "c"], ["a2"]),
    opx.step_req("s3", [], ["z", "d/zz"]),
    ("amend_step", "$job", ["a", "d/"], [], [], []),
    ("amend_step", "$job", [], [], ["y1", "b"], []),
    ("amend_step", "$job", [], [], ["y2"], ["y2"]),
    ("amend_step", "$job", [], [], ["newdir/y3"], ["newdir/y3"]),
    ("amend_step", "$job", ["d/"], [], ["newdir2/y4"], []),
    ("declare_static", "$job", [], ["a", "b", ".stepup/x"], []),
    ("declare_static", "$job", ["d/", "./"], [], []),
    ("declare_static", "$job", ["d/s/", "d/"], ["a"], []),
    # a tree that is fine on its own, followed by a file or a pattern that is refused
    ("declare_static", "$job", ["d/s/"], ["a", ".stepup/x"], []),
    ("declare_static", "$job", ["d/s/"], ["b"], []),
    ("declare_static", "$job", ["d/"], [], [("*", ["a", "b"])]),
    # an amendment whose input lies under a static tree (UNCONFIRMED until it is hashed, which
    # the handler waits for) and whose outputs are refused afterwards
    ("amend_step", "$job", ["d/e"], [], [".stepup/x"], []),
    ("amend_step", "$job", ["d/e"], [], ["y2"], ["y2"]),
    ("amend_step", "$job", ["d/e"], [], ["d/zz"], []),
    ("amend_step", "$job", ["d/e"], ["VERIF_X"], ["a"], []),
]


class Check:
    def __init__(self, acc):
        self.acc = acc
        self.events = None

    def on_commit(self, sim, con):
        pass

    def after_event(self, machine, ev, before, after, info, sim):
        if ev[0] != "req":
            return
        reply = info["last"]["reply"]
        if isinstance(reply, opx.RemoteFailure):
            self.acc.nontrivial.add(h8(self.events))
            self.acc.count("rejected_requests")
            if before["raw"] != after["raw"]:
                diff = {t: [r for r in after["raw"][t] if r not in before["raw"][t]][:4]
                        for t in after["raw"] if after["raw"][t] != before["raw"][t]}
                self.acc.violation(f"C15|rejected-changed-db|{ev[2][0]}|{reply.qualname}",
                                   {"request": repr(ev[2]), "error": f"{reply.qualname}: {reply.message}",
                                    "changed_tables": diff, "events": self.events}, {"events": self.events})
            if before["fs"] != after["fs"]:
                self.acc.violation(f"C15|rejected-changed-files|{ev[2][0]}",
                                   {"request": repr(ev[2]), "before": sorted(before["fs"]),
                                    "after": sorted(after["fs"]), "events": self.events}, {"events": self.events})
        else:
            self.acc.count("accepted_requests")


def jobs(tier, seed):
    out = []
    depth = 2 if tier == "quick" else 3
    m = opx.Machine(menu=CORE_MENU + [UNDECL_STEP] + LATE_FAILURES + opx.MENU_MALFORMED, targets_menu=((),), exits=["ok", "fail"])
    st = m.replay([("start", ())])
    for ev in st["enabled"]:
        out.append({"part": "a", "root": [("start", ()), ev], "depth": depth})
    out.append({"part": "b", "tier": tier})
    out.append({"part": "c", "tier": tier})
    # (d) rejected requests leave nothing behind outside the database either
    start = [("start", ())]
    prefixes = [(start, ["./plan.py"]),
                ([*start, ("req", "./plan.py", opx.MENU_STATIC[0])], ["./plan.py"]),
                ([*start, ("req", "./plan.py", opx.MENU_STEPS[0])], ["./plan.py"]),
                ([*start, ("req", "./plan.py", opx.MENU_STATIC[0]), ("req", "./plan.py", opx.MENU_STEPS[0])],
                 ["./plan.py", "s1"]),
                ([*start, ("req", "./plan.py", opx.MENU_STEPS[5])], ["./plan.py", "s3"])]
    for prefix, labels in prefixes:
        for label in labels:
            out.append({"part": "d", "prefix": prefix, "labels": [label]})
    return out


def run_a(spec, acc):
    check = Check(acc)
    m = opx.Machine(menu=CORE_MENU + [UNDECL_STEP] + LATE_FAILURES + opx.MENU_MALFORMED, check=check, targets_menu=((),),
                    exits=["ok", "fail"])
    m.fs_core = True
    orig = m.replay

    def replay(events):
        check.events = [repr(e) for e in events]
        return orig(events)

    m.replay = replay

    def visit(events, st):
        acc.evaluations += 1
        acc.states.add(st["key"])
        if len(acc.samples) < 2 and st["info"]["last"] and isinstance(st["info"]["last"]["reply"], opx.RemoteFailure):
            acc.sample({"events": [repr(e)[:100] for e in events],
                        "rejected_with": st["info"]["last"]["reply"].message[:150]})

    n, ntrans, trunc, closed = opx.bfs(m, [spec["root"]], spec["depth"] - 1, visit)
    acc.transitions += ntrans
    if trunc:
        acc.caps.append("state cap")


def run_mix(machine, prefix, mix, sequential):
    """Apply `prefix`, then send the requests of `mix` concurrently or one after the other."""
    world = machine.new_world()
    sim = None
    info = {"last": None, "violations": [], "phase_ends": []}
    try:
        for ev in prefix:
            sim = machine.apply(world, sim, ev, info, False)
        replies = {}
        if sequential:
            sim.online_replies.clear()
            for label, req in mix:
                gate = machine.proc_gate(sim, label)
                sim.fire_payload(gate, ("req", req, world))
                machine.settle(sim)
        else:
            sim.online_replies.clear()
            for label, req in mix:
                gate = machine.proc_gate(sim, label)
                sim.fire_payload(gate, ("req", req, world))
            machine.settle(sim)
            for (label, req), rep in zip(mix, sim.online_replies):
                pass
        raw = machine.raw(world, sim)
        fs = world.fs_state()
        nrep = len(sim.online_replies)
        fails = sorted((r.qualname, r.message) for r in sim.online_replies if isinstance(r, opx.RemoteFailure))
        return raw, fs, nrep, fails
    finally:
        if sim is not None:
            sim.close()
        world.destroy()


def run_b(spec, acc):
    m = opx.Machine(njob=3, targets_menu=((),))
    c1 = opx.step_req("c1")
    c2 = opx.step_req("c2")
    prefix = [("start", ()), ("req", "./plan.py", c1), ("req", "./plan.py", c2)]
    reqs = [opx.MENU_STATIC[0], opx.MENU_STATIC[4], opx.MENU_STATIC[8], opx.MENU_STEPS[0], opx.MENU_STEPS[2],
            opx.MENU_STEPS[4], opx.MENU_STEPS[5], opx.MENU_STEPS[7], opx.MENU_AMEND[0], opx.MENU_AMEND[3],
            opx.MENU_AMEND[1], LATE_FAILURES[0], LATE_FAILURES[2]]
    labels = ["./plan.py", "c1", "c2"]
    mixes = []
    for ra, rb in itertools.product(reqs, repeat=2):
        mixes.append([("c1", ra), ("c2", rb)])
        mixes.append([("./plan.py", ra), ("c1", rb)])
    if spec["tier"] == "thorough":
        for ra, rb, rc in itertools.product(reqs[:8], repeat=3):
            mixes.append([("./plan.py", ra), ("c1", rb), ("c2", rc)])
    else:
        for ra, rb, rc in itertools.product(reqs[3:7], repeat=3):
            mixes.append([("./plan.py", ra), ("c1", rb), ("c2", rc)])
    for mix in mixes:
        for order in itertools.permutations(mix):
            conc = run_mix(m, prefix, list(order), sequential=False)
            seq = run_mix(m, prefix, list(order), sequential=True)
            acc.evaluations += 2
            acc.transitions += 2 * len(order)
            acc.nontrivial.add(h8([repr(order)]))
            acc.states.add(h8([conc[0]]))
            if conc[0] != seq[0] or conc[1] != seq[1] or conc[3] != seq[3] or conc[2] != len(order):
                diff = {}
                if conc[0] and seq[0]:
                    diff = {t: ([r for r in conc[0][t] if r not in seq[0][t]][:3], [r for r in seq[0][t] if r not in conc[0][t]][:3])
                            for t in conc[0] if conc[0][t] != seq[0][t]}
                acc.violation(f"C15|concurrent-differs|{h8(repr(order))}",
                              {"requests": [(l, repr(r)[:120]) for l, r in order], "table_diff": diff,
                               "replies_concurrent": conc[2], "failures_concurrent": conc[3],
                               "failures_sequential": seq[3]}, None)
    acc.sample({"concurrent_mixes": len(mixes)})


def run_c(spec, acc):
    """A request received in full is applied in full although the peer disconnects."""
    from stepup.core.rpc import RPCServerConnection

    from .c16 import Writer, encode_call

    m_instant = opx.Machine(njob=2, targets_menu=((),))
    # reports take time: the executor is suspended while it reports the result of a step
    m_gated = opx.Machine(njob=2, targets_menu=((),), reporter="gate")
    requests = [
        ("define_step", opx.MENU_STEPS[0][2:], lambda raw: any(s[0] == "step:s1" for s in raw["step"])),
        ("declare_static", ([], ["a", "d/e"], []), lambda raw: any(f[0] == "file:d/e" for f in raw["file"])),
        ("amend_step", ([], ["VERIF_X"], ["c"], []), lambda raw: any(f[0] == "file:c" for f in raw["file"])),
        ("hold_dispatch", (), lambda raw: any(s[0] == "step:./plan.py" and s[7] == 1 for s in raw["step"])),
    ]
    for name, args, applied in requests:
        # EOF after k fragments of the request stream were delivered; k = all means EOF after the full request
        for eof_point in ("right_after_request", "after_lock_released", "with_trailing_garbage"):
            for release_first, exit_first in ((False, False), (True, False), (False, True)):
                if exit_first and name == "hold_dispatch":
                    # a hold of a step that has completed ends with the step: nothing to observe
                    continue
                m = m_gated if exit_first else m_instant
                world = m.new_world()
                sim = m.start_session(world, ())
                try:
                    m.settle(sim)
                    job_i = next(iter(sim.handler.scheduler.jobs))
                    reader = asyncio.StreamReader(loop=sim.loop)
                    writer = Writer()
                    conn = RPCServerConnection(sim.handler, reader, writer)
                    serve = sim.loop.create_task(conn.serve())
                    release = sim.loop.create_future()

                    async def hold_db(sim=sim, release=release):
                        async with sim.db:
                            await release

                    holder = sim.loop.create_task(hold_db())
                    sim.loop.run_ready()
                    if exit_first:
                        # the step sent its request and died at once; the director notices the
                        # exit before it reads the socket. A second holder takes the database
                        # over while the outputs are hashed, so that the completion of the step
                        # queues on the database first and the request behind it: the request is
                        # handled after the step was marked completed, while its result is
                        # being reported and its job is not retired yet
                        sim.fire_payload(m.proc_gate(sim, "./plan.py"), ("exit", "ok", world))
                        sim.loop.run_ready()
                        release2 = sim.loop.create_future()

                        async def hold_db2(sim=sim, release2=release2):
                            async with sim.db:
                                await release2

                        holder2 = sim.loop.create_task(hold_db2())
                        sim.loop.run_ready()
                        release.set_result(None)
                        for _ in range(50):
                            sim.loop.run_ready()
                            auto = [g for g in sim.enabled() if getattr(g, "kind", None) == "hash"]
                            if not auto:
                                break
                            sim.fire(auto[0])
                        release = release2
                        del holder2
                    data = encode_call(1, name, job_i, *args)
                    reader.feed_data(data)
                    sim.loop.run_ready()
                    if eof_point == "right_after_request":
                        reader.feed_eof()
                        sim.loop.run_ready()
                    elif eof_point == "with_trailing_garbage":
                        reader.feed_data(data[:9])
                        reader.feed_eof()
                        sim.loop.run_ready()
                    writer.fail = ConnectionResetError("peer gone") if release_first else None
                    if release_first:
                        # an hour passes before the database is released (a long transaction, a
                        # large file being hashed): every timer of the server falls due; a
                        # request received in full must still be applied in full afterwards
                        from ..vloop import advance

                        advance(sim.loop, 3600.0)
                    release.set_result(None)
                    sim.loop.run_ready()
                    if eof_point == "after_lock_released":
                        reader.feed_eof()
                        sim.loop.run_ready()
                    m.settle(sim)
                    raw = m.raw(world, sim)
                    acc.evaluations += 1
                    acc.transitions += 4
                    acc.nontrivial.add(h8([name, eof_point, release_first, exit_first]))
                    acc.states.add(h8([raw]))
                    what = {"request": name, "eof": eof_point, "peer_write_fails": release_first,
                            "step_exited_before_the_request_was_read": exit_first}
                    if not applied(raw):
                        acc.violation(f"C15|disconnect-lost-request|{name}|{eof_point}", what, None)
                    if not serve.done():
                        acc.violation(f"C15|serve-did-not-return|{name}|{eof_point}", what, None)
                    elif serve.exception() is not None:
                        acc.violation(f"C15|serve-raised|{name}|{eof_point}", {**what, "exc": repr(serve.exception())}, None)
                    if name == "define_step" and sum(1 for s in raw["step"] if s[0] == "step:s1") != 1:
                        acc.violation(f"C15|applied-twice|{name}", what, None)
                    del holder
                finally:
                    sim.close()
                    world.destroy()
    acc.sample({"disconnect_requests": [r[0] for r in requests]})


FOLLOW_UPS = [opx.MENU_STATIC[0], opx.MENU_STATIC[4], opx.MENU_STEPS[0], opx.MENU_STEPS[2], opx.MENU_STEPS[7],
              opx.MENU_AMEND[0], opx.MENU_AMEND[1], opx.MENU_AMEND[2], opx.MENU_AMEND[3], opx.MENU_AMEND[6],
              ("amend_step", "$job", ["a"], [], [], []), ("amend_step", "$job", ["a", "d/e"], [], ["y9"], [])]
D_REJECTED = LATE_FAILURES + [
    # amendments that are refused after their inputs were looked at
    ("amend_step", "$job", ["a"], [], ["a"], []),
    ("amend_step", "$job", ["a", "d/e"], [], [".stepup/x"], []),
    ("amend_step", "$job", ["a"], [], [], ["a"]),
    ("amend_step", "$job", ["b", "a"], [], ["y1", "b"], []),
]


def run_d(spec, acc):
    """A rejected request is a no-op for the future: from every state of the prefix list, for every
    rejected request R and every follow-up request R2 by the same command, the state and the reply
    after [R, R2] equal those after [R2] alone (nothing outside the rolled-back transaction may
    remember R)."""
    m = opx.Machine(menu=[], targets_menu=((),), exits=["ok"], fs_events=False, allow_kill=False)
    prefix = spec["prefix"]
    base = {}

    def outcome(events):
        st = m.replay(events)
        last = st["info"]["last"]
        reply = last["reply"] if last else None
        if isinstance(reply, opx.RemoteFailure):
            rep = ("rejected", reply.qualname, reply.message)
        else:
            rep = ("accepted", repr(reply))
        return st["key"], st["raw"], rep

    for label in spec["labels"]:
        for r in D_REJECTED:
            _, _, rep_r = outcome([*prefix, ("req", label, r)])
            acc.evaluations += 1
            if rep_r[0] != "rejected":
                continue
            for r2 in FOLLOW_UPS:
                if (label, repr(r2)) not in base:
                    base[(label, repr(r2))] = outcome([*prefix, ("req", label, r2)])
                    acc.evaluations += 1
                k0, raw0, rep0 = base[(label, repr(r2))]
                k1, raw1, rep1 = outcome([*prefix, ("req", label, r), ("req", label, r2)])
                acc.evaluations += 1
                acc.transitions += 2
                acc.states.add(k1)
                acc.nontrivial.add(h8([prefix, label, r, r2]))
                if k0 != k1 or rep0 != rep1:
                    changed = {t: [x for x in raw1[t] if x not in raw0[t]] + [("-", x) for x in raw0[t] if x not in raw1[t]]
                               for t in raw0 if raw0[t] != raw1[t]}
                    acc.violation(f"C15|rejected-request-not-forgotten|{r[0]}>{r2[0]}",
                                  {"why": "the same follow-up request has another effect after a rejected request",
                                   "prefix": [repr(e)[:120] for e in prefix], "command": label,
                                   "rejected": repr(r), "rejected_with": rep_r[1:],
                                   "follow_up": repr(r2), "reply_alone": rep0, "reply_after_rejection": rep1,
                                   "tables_that_differ": {t: v[:4] for t, v in changed.items()}}, None)


def run_job(spec):
    acc = Acc()
    if spec["part"] == "d":
        run_d(spec, acc)
    elif spec["part"] == "a":
        run_a(spec, acc)
    elif spec["part"] == "b":
        run_b(spec, acc)
    else:
        run_c(spec, acc)
    return acc


def replay(doc):
    import json

    print(json.dumps(doc.get("what"), indent=1, default=str)[:6000])
    return 0
