"""C16: remote calls are answered exactly once and correctly paired (RPCX transport explorer)."""

import asyncio
import itertools
import pickle
import types

from ..runner import Acc, h8
from ..vloop import VLoop

LEVEL = "model_checking"
RULE = (
    "real RPCServerConnection / SocketAsyncRPCClient / SocketSyncRPCClient on in-memory streams: "
    "request streams of 1 to 3 calls (allowed, not allowed, private, missing, raising a usage "
    "error, raising an internal error, returning an unpicklable value, waiting on a gate) on one "
    "and on two connections; every fragmentation with up to k cuts at the enumerated offsets plus "
    "byte-by-byte; every interleaving of fragment deliveries and handler completions; truncation "
    "(EOF) at every byte offset; garbage (oversize header, close sentinel, pickled non-call, "
    "unpicklable bytes) substituted at every message boundary and inside headers; the client side "
    "with fragmented, reordered, unknown-id and duplicate replies; every name reachable on a real "
    "DirectorHandler is refused unless decorated in the source; non-trivial: at least two "
    "calls were in flight at once or a fault was injected"
)
ASSUMPTIONS = [
    "kernel socket semantics are replaced by asyncio.StreamReader fed by hand and a recording writer",
    "payload sizes of a few hundred bytes; header values around MAX_BODY_SIZE are covered by the garbage cases",
]


# ------------------------------------------------------------------------------------------
# In-memory plumbing
# ------------------------------------------------------------------------------------------


class Writer:
    def __init__(self):
        self.buf = bytearray()
        self.closed = False
        self.fail = None
        self.transport = types.SimpleNamespace(abort=self._abort)

    def _abort(self):
        self.closed = True

    def write(self, data):
        if self.fail is not None:
            raise self.fail
        self.buf += data

    async def drain(self):
        if self.fail is not None:
            raise self.fail

    def close(self):
        self.closed = True

    async def wait_closed(self):
        return None

    def frames(self):
        """Parse what was written into (call_id, body or None) frames."""
        out, b, i = [], bytes(self.buf), 0
        while i + 16 <= len(b):
            cid = int.from_bytes(b[i : i + 8], "big")
            size = int.from_bytes(b[i + 8 : i + 16], "big")
            body = b[i + 16 : i + 16 + size]
            out.append((cid, None if size == 0 else body))
            i += 16 + size
        return out


class Env:
    def __init__(self):
        self.loop = VLoop()
        self.loop.install()
        self.gates = {}
        self.barriers = {}

    async def gate(self, tag):
        fut = self.loop.create_future()
        self.gates[tag] = fut
        try:
            await fut
        finally:
            self.gates.pop(tag, None)

    def open_gates(self):
        return sorted(t for t, f in self.gates.items() if not f.done())

    def release(self, tag):
        if tag.startswith("x"):
            # what the handler waits for is cancelled by another part of the director (a hash
            # queue shutting down, say): the handler ends in CancelledError on a healthy connection
            self.gates[tag].cancel()
        else:
            self.gates[tag].set_result(None)

    def settle(self, budget=20000):
        self.loop.run_ready(budget)

    def close(self):
        for task in asyncio.all_tasks(self.loop):
            task._log_destroy_pending = False
        self.loop._ready.clear()
        self.loop.uninstall()
        self.loop.close()


def make_handler(env):
    from stepup.core.exceptions import ConsistencyError, GraphError
    from stepup.core.rpc import allow_rpc

    class Toy:
        def __init__(self):
            self.invoked = []

        @allow_rpc
        async def echo(self, x):
            self.invoked.append(("echo", x))
            return ("echo", x)

        @allow_rpc
        def sync_echo(self, x):
            self.invoked.append(("sync_echo", x))
            return ("sync_echo", x)

        @allow_rpc
        async def slow(self, tag):
            self.invoked.append(("slow", tag))
            await env.gate(tag)
            return ("slow", tag)

        @allow_rpc
        async def doomed(self, tag):
            self.invoked.append(("doomed", tag))
            await env.gate(tag)
            return ("doomed", tag)

        @allow_rpc
        async def barrier(self, tag, k):
            # many calls wait for one event (as wait_for_idle / wait_for_update do) and complete
            # in the same loop iteration when it is set
            self.invoked.append(("barrier", tag, k))
            ev = env.barriers.setdefault(tag, asyncio.Event())
            await ev.wait()
            return ("barrier", tag, k)

        @allow_rpc
        async def usage(self, tag):
            self.invoked.append(("usage", tag))
            raise GraphError(f"bad plan {tag}")

        @allow_rpc
        async def internal(self, tag):
            self.invoked.append(("internal", tag))
            raise ConsistencyError(f"boom {tag}")

        @allow_rpc
        async def unpicklable(self):
            self.invoked.append(("unpicklable",))
            return lambda: 0

        async def hidden(self, x):
            self.invoked.append(("hidden", x))
            return "hidden-result"

        async def _private(self):
            self.invoked.append(("_private",))
            return "private-result"

    return Toy()


def encode_call(cid, name, *args):
    from stepup.core.rpc import RPCCall, _encode_body, _encode_message

    return _encode_message(cid, _encode_body(RPCCall(name, args, {})))


CALL_MENU = [
    ("echo", (1,)), ("sync_echo", (2,)), ("slow", ("g1",)), ("slow", ("g2",)), ("usage", ("u",)),
    ("internal", ("i",)), ("unpicklable", ()), ("hidden", (3,)), ("_private", ()),
    ("__init__", ()), ("nosuch", ()), ("echo", ()), ("doomed", ("x1",)),
]


def expected_reply(name, args):
    """('value', v) | ('usage', cls) | ('rpcerror',) | ('sentinel',) for one call of the menu."""
    if name in ("hidden", "_private", "__init__", "nosuch") or (name == "echo" and not args):
        return ("rpcerror",)
    if name in ("echo", "sync_echo", "slow"):
        return ("value", (name, args[0]))
    if name == "usage":
        return ("usage", "GraphError")
    if name in ("internal", "doomed"):
        return ("rpcerror",)
    if name == "unpicklable":
        return ("sentinel",)
    raise ValueError(name)


def check_reply(acc, key, name, args, frames_for_id, what):
    from stepup.core.rpc import RemoteFailure

    exp = expected_reply(name, args)
    if len(frames_for_id) != 1:
        acc.violation(f"C16|server|reply-count|{key}", {"call": (name, args), "replies": len(frames_for_id), **what}, None)
        return
    body = frames_for_id[0]
    if exp[0] == "sentinel":
        if body is not None:
            acc.violation(f"C16|server|sentinel|{key}", {"call": (name, args), **what}, None)
        return
    if body is None:
        acc.violation(f"C16|server|unexpected-sentinel|{key}", {"call": (name, args), **what}, None)
        return
    val = pickle.loads(body)
    if exp[0] == "value":
        if val != exp[1]:
            acc.violation(f"C16|server|wrong-value|{key}", {"call": (name, args), "got": repr(val), **what}, None)
    elif exp[0] == "usage":
        if not (isinstance(val, RemoteFailure) and val.usage and val.qualname == exp[1]):
            acc.violation(f"C16|server|usage-class|{key}", {"call": (name, args), "got": repr(val)[:200], **what}, None)
    elif exp[0] == "rpcerror":
        if not (isinstance(val, RemoteFailure) and not val.usage):
            acc.violation(f"C16|server|internal-class|{key}", {"call": (name, args), "got": repr(val)[:200], **what}, None)


# ------------------------------------------------------------------------------------------
# Server side
# ------------------------------------------------------------------------------------------


def offsets_of(stream, boundaries, tier):
    offs = set()
    for b in boundaries:
        for d in range(-2, 18):
            if 0 < b + d < len(stream):
                offs.add(b + d)
    if tier == "thorough":
        offs.update(range(1, len(stream)))
    return sorted(offs)


def run_server(calls, cuts, order_prefix, eof=True, garbage=None, truncate=None, two=False):
    """One execution. `order_prefix` chooses among enabled events; returns observations."""
    from stepup.core.rpc import RPCServerConnection

    env = Env()
    try:
        handler = make_handler(env)
        msgs = [encode_call(i + 1, n, *a) for i, (n, a) in enumerate(calls)]
        stream = b"".join(msgs)
        if garbage is not None:
            pos, junk = garbage
            stream = stream[:pos] + junk
        if truncate is not None:
            stream = stream[:truncate]
        pieces, last = [], 0
        for c in [c for c in cuts if 0 < c < len(stream)]:
            pieces.append(stream[last:c])
            last = c
        pieces.append(stream[last:])
        pieces = [p for p in pieces if p]
        from stepup.core.rpc import SocketRPCServer

        reader = asyncio.StreamReader(loop=env.loop)
        writer = Writer()
        # connections are accepted the way the real server accepts them (everything but the
        # socket itself), so that state the server shares between its connections is in play
        server = SocketRPCServer(handler, "unused-socket-path")
        serve = env.loop.create_task(server._serve_connection(reader, writer))
        other = None
        if two:
            reader2 = asyncio.StreamReader(loop=env.loop)
            writer2 = Writer()
            serve2 = env.loop.create_task(server._serve_connection(reader2, writer2))
            reader2.feed_data(encode_call(1, "echo", 99) + encode_call(2, "slow", "other"))
            other = (reader2, writer2, serve2)
        env.settle()
        points, choices = [], []
        fed_eof = False
        step = 0
        while True:
            enabled = []
            if pieces:
                enabled.append(("feed", None))
            elif eof and not fed_eof:
                enabled.append(("eof", None))
            enabled.extend(("release", t) for t in env.open_gates())
            if not enabled:
                break
            idx = order_prefix[step] if step < len(order_prefix) else 0
            if idx >= len(enabled):
                raise RuntimeError("replay divergence in C16")
            points.append((len(enabled), idx))
            kind, arg = enabled[idx]
            choices.append((kind, arg))
            if kind == "feed":
                reader.feed_data(pieces.pop(0))
            elif kind == "eof":
                reader.feed_eof()
                fed_eof = True
            else:
                env.release(arg)
            env.settle()
            step += 1
            if step > 20000:
                break
        if other is not None:
            other[0].feed_eof()
            env.settle()
        result = {
            "points": points, "choices": choices, "frames": writer.frames(), "invoked": list(handler.invoked),
            "serve_done": serve.done(), "serve_exc": None, "writer_closed": writer.closed,
            "stream_len": len(stream), "pending_tasks": 0, "other": None,
        }
        if serve.done() and not serve.cancelled():
            exc = serve.exception()
            result["serve_exc"] = exc
        if other is not None:
            result["other"] = {"frames": other[1].frames(), "done": other[2].done(),
                               "exc": other[2].exception() if other[2].done() and not other[2].cancelled() else None}
        result["pending_tasks"] = sum(1 for t in asyncio.all_tasks(env.loop) if not t.done())
        result["unhandled"] = [str(c.get("message")) for c in env.loop.unhandled]
        return result
    finally:
        env.close()


def judge_server(acc, key, calls, res, complete_upto, what, fault):
    """complete_upto: number of calls whose request was delivered in full before any fault."""
    frames = {}
    for cid, body in res["frames"]:
        frames.setdefault(cid, []).append(body)
    sent_ids = set(range(1, len(calls) + 1))
    for cid in frames:
        if cid not in sent_ids:
            acc.violation(f"C16|server|reply-unknown-id|{key}", {"id": cid, **what}, None)
    # a gated call that completes only after the peer's EOF has nobody left to answer, and a reply
    # that cannot be pickled ends the connection after its sentinel: later replies may be dropped
    eof_at = next((i for i, c in enumerate(res["choices"]) if c[0] == "eof"), None)
    late = set()
    if eof_at is not None:
        late = {c[1] for c in res["choices"][eof_at + 1:] if c[0] == "release"}
    unp_at = next((i for i, (n, _) in enumerate(calls) if n == "unpicklable"), None)
    for i, (name, args) in enumerate(calls):
        cid = i + 1
        optional = (name in ("slow", "doomed") and args[0] in late) or (unp_at is not None and i != unp_at)
        if i < complete_upto:
            if fault is None and not optional:
                check_reply(acc, key, name, args, frames.get(cid, []), what)
            else:
                # after a fault the reply may be dropped, never duplicated or mispaired
                if len(frames.get(cid, [])) > 1:
                    acc.violation(f"C16|server|duplicate-reply|{key}", {"call": (name, args), **what}, None)
                elif frames.get(cid):
                    check_reply(acc, key, name, args, frames[cid], what)
        elif frames.get(cid):
            acc.violation(f"C16|server|reply-to-incomplete-request|{key}", {"call": (name, args), **what}, None)
    # never invoke what is not exposed
    for rec in res["invoked"]:
        if rec[0] in ("hidden", "_private"):
            acc.violation(f"C16|server|invoked-unexposed|{rec[0]}", {"invoked": rec, **what}, None)
    # every complete request reaches its handler exactly once
    for i, (name, args) in enumerate(calls[:complete_upto]):
        if unp_at is not None and i > unp_at:
            continue
        if expected_reply(name, args)[0] != "rpcerror" or name in ("internal", "doomed"):
            n = sum(1 for rec in res["invoked"] if rec[0] == name and tuple(rec[1:]) == tuple(args))
            same = sum(1 for (n2, a2) in calls[:complete_upto] if (n2, a2) == (name, args))
            if n != same:
                acc.violation(f"C16|server|handler-runs|{key}", {"call": (name, args), "runs": n, "sent": same, **what}, None)
    if not res["serve_done"]:
        acc.violation(f"C16|server|serve-did-not-end|{key}", {**what, "choices": res["choices"][-6:]}, None)
    elif res["serve_exc"] is not None:
        from stepup.core.exceptions import RPCError

        exc = res["serve_exc"]
        ok = fault == "garbage" and isinstance(exc, BaseExceptionGroup) and all(
            isinstance(e, RPCError) for e in exc.exceptions)
        unp = any(n == "unpicklable" for n, _ in calls[:complete_upto]) and isinstance(exc, BaseExceptionGroup)
        if not ok and not unp:
            acc.violation(f"C16|server|serve-raised|{key}", {"exc": repr(exc)[:300], **what}, None)
    if res["serve_done"] and not res["writer_closed"]:
        acc.violation(f"C16|server|writer-left-open|{key}", what, None)
    if res["serve_done"] and res["pending_tasks"] and res["other"] is None:
        acc.violation(f"C16|server|tasks-left|{key}", {"pending": res["pending_tasks"], **what}, None)
    if res["other"] is not None:
        o = res["other"]
        of = {}
        for cid, body in o["frames"]:
            of.setdefault(cid, []).append(body)
        vals = {}
        for cid in (1, 2):
            if len(of.get(cid, [])) == 1 and of[cid][0] is not None:
                try:
                    vals[cid] = pickle.loads(of[cid][0])
                except Exception as exc:  # noqa: BLE001
                    vals[cid] = exc
        released = any(c == ("release", "other") for c in res["choices"])
        wrong = vals.get(1) != ("echo", 99) or (2 in vals and vals[2] != ("slow", "other"))
        early = 2 in of and not released
        if wrong or early:
            acc.violation(f"C16|server|other-connection-reply|{key}",
                          {"why": "a call on another, healthy connection got a wrong or premature reply",
                           "replies": {k: repr(v)[:120] for k, v in vals.items()}, "other_gate_released": released, **what}, None)
        if len(of.get(1, [])) != 1 or len(of.get(2, [])) > 1 or (released and len(of.get(2, [])) != 1) \
                or not o["done"] or o["exc"] is not None:
            acc.violation(f"C16|server|other-connection-disturbed|{key}",
                          {"frames": {k: len(v) for k, v in of.items()}, "done": o["done"], "exc": repr(o["exc"]), **what}, None)


def explore_orders(run, visit, bound=None):
    """All interleavings (choice sequences) of one configuration, depth-first."""
    stack = [[]]
    n = 0
    while stack:
        prefix = stack.pop()
        res = run(prefix)
        n += 1
        visit(res)
        pts = res["points"]
        for i in range(len(prefix), len(pts)):
            for alt in range(1, pts[i][0]):
                if bound is not None and sum(1 for c in prefix if c) + 1 > bound:
                    continue
                stack.append([c for _, c in pts[:i]] + [alt])
    return n


def call_sets(tier):
    singles = [[c] for c in CALL_MENU]
    pairs = [[("slow", ("g1",)), ("echo", (1,))], [("slow", ("g1",)), ("slow", ("g2",))],
             [("usage", ("u",)), ("slow", ("g1",))], [("unpicklable", ()), ("echo", (1,))],
             [("hidden", (3,)), ("echo", (1,))], [("internal", ("i",)), ("slow", ("g1",))],
             [("doomed", ("x1",)), ("echo", (1,))], [("slow", ("g1",)), ("doomed", ("x1",))]]
    triples = [[("slow", ("g1",)), ("slow", ("g2",)), ("echo", (1,))],
               [("slow", ("g1",)), ("usage", ("u",)), ("slow", ("g2",))]]
    return singles + pairs + triples


def garbage_variants():
    from stepup.core.rpc import MAX_BODY_SIZE, _encode_message

    return {
        "oversize": (7).to_bytes(8, "big") + (MAX_BODY_SIZE + 1).to_bytes(8, "big") + b"xx",
        "close": _encode_message(7, None),
        "noncall": _encode_message(7, pickle.dumps({"not": "a call"})),
        "unpickle": _encode_message(7, b"\x80\x05garbage-that-is-no-pickle"),
        "empty-pickle": _encode_message(7, b"N."),
    }


def jobs(tier, seed):
    out = []
    for i, calls in enumerate(call_sets(tier)):
        out.append({"part": "frag", "calls": calls, "tier": tier})
        out.append({"part": "trunc", "calls": calls, "tier": tier})
        out.append({"part": "garbage", "calls": calls, "tier": tier})
    out.append({"part": "client", "tier": tier})
    out.append({"part": "exposed", "tier": tier})
    out.append({"part": "client_big", "tier": tier})
    out.append({"part": "client_cancel", "tier": tier})
    out.append({"part": "sync", "tier": tier})
    sets = call_sets(tier)
    for lo in range(0, len(sets), 6):
        out.append({"part": "realsocket", "callsets": sets[lo : lo + 6], "tier": tier})
    for sizes in ([2, 17, 64, 65], [100, 257], [1000] if tier == "quick" else [1000, 5000]):
        out.append({"part": "burst", "sizes": sizes, "tier": tier})
    return out


def boundaries(calls):
    b, pos = [0], 0
    for i, (n, a) in enumerate(calls):
        pos += len(encode_call(i + 1, n, *a))
        b.append(pos)
    return b


def run_frag(spec, acc):
    calls = [(n, tuple(a)) for n, a in spec["calls"]]
    env_probe = Env()
    try:
        bnd = boundaries(calls)
    finally:
        env_probe.close()
    total = bnd[-1]
    offs = offsets_of(b"x" * total, bnd, spec["tier"])
    cutsets = [[]] + [[o] for o in offs]
    if spec["tier"] == "thorough" or len(calls) == 1:
        cutsets += [list(c) for c in itertools.combinations(offs[:: (1 if spec["tier"] == "thorough" else 3)], 2)]
    cutsets.append(list(range(1, total)))  # byte by byte
    for cuts in cutsets:
        for two in ((False, True) if len(cuts) <= 1 else (False,)):
            key = f"{[c[0] for c in calls]}"
            what = {"calls": calls, "cuts": cuts if len(cuts) < 6 else "byte-by-byte", "two_connections": two}

            def visit(res, what=what, key=key):
                acc.evaluations += 1
                acc.transitions += len(res["choices"])
                acc.states.add(h8([key, res["choices"], [c for c, _ in res["frames"]]]))
                if len(calls) > 1 or two:
                    acc.nontrivial.add(h8([key, what["cuts"], res["choices"]]))
                judge_server(acc, key, calls, res, len(calls), {**what, "order": res["choices"][-8:]}, None)
                if res["unhandled"]:
                    acc.violation(f"C16|server|unhandled-loop-error|{key}", {"msgs": res["unhandled"][:2], **what}, None)

            bound = None if len(cuts) < 6 else 1
            explore_orders(lambda p, cuts=cuts, two=two: run_server(calls, cuts, p, two=two), visit, bound)
    acc.sample({"calls": calls, "fragmentations": len(cutsets)})


def run_trunc(spec, acc):
    calls = [(n, tuple(a)) for n, a in spec["calls"]]
    e = Env()
    try:
        bnd = boundaries(calls)
    finally:
        e.close()
    for t in range(0, bnd[-1]):
        complete = sum(1 for b in bnd[1:] if b <= t)
        key = f"{[c[0] for c in calls]}"
        what = {"calls": calls, "truncated_at": t}

        def visit(res, what=what, key=key, complete=complete):
            acc.evaluations += 1
            acc.transitions += len(res["choices"])
            acc.nontrivial.add(h8([key, what["truncated_at"], res["choices"]]))
            judge_server(acc, key, calls, res, complete, what, "eof")

        explore_orders(lambda p, t=t: run_server(calls, [], p, truncate=t, two=(t % 7 == 0)), visit, 2)
    acc.sample({"calls": calls, "truncation_points": bnd[-1]})


def run_garbage(spec, acc):
    calls = [(n, tuple(a)) for n, a in spec["calls"]]
    e = Env()
    try:
        bnd = boundaries(calls)
        variants = garbage_variants()
    finally:
        e.close()
    positions = set(bnd[:-1]) | {b + d for b in bnd[:-1] for d in (1, 8, 15)} | {bnd[-1]}
    for pos in sorted(p for p in positions if p <= bnd[-1]):
        complete = sum(1 for b in bnd[1:] if b <= pos)
        aligned = pos in bnd
        for gname, junk in variants.items():
            key = f"{[c[0] for c in calls]}|{gname}"
            what = {"calls": calls, "garbage": gname, "at": pos}

            def visit(res, what=what, key=key, complete=complete, gname=gname, aligned=aligned):
                acc.evaluations += 1
                acc.transitions += len(res["choices"])
                acc.nontrivial.add(h8([key, what["at"], res["choices"]]))
                fault = "eof" if (gname == "close" and aligned) else "garbage"
                judge_server(acc, key, calls, res, complete, what, fault)

            explore_orders(lambda p, pos=pos, junk=junk: run_server(calls, [], p, garbage=(pos, junk), two=True),
                           visit, 2)
            if aligned:
                # the peer keeps the connection open after the malformed frame: the connection
                # must end on its own, without waiting for bytes that never come
                def visit_open(res, what=what, key=key):
                    acc.evaluations += 1
                    acc.nontrivial.add(h8([key, "open", what["at"], res["choices"]]))
                    if not res["serve_done"]:
                        acc.violation(f"C16|server|blocked-by-malformed-frame|{key}",
                                      {**what, "peer": "keeps the connection open"}, None)

                explore_orders(lambda p, pos=pos, junk=junk: run_server(calls, [], p, garbage=(pos, junk), eof=False),
                               visit_open, 2)
    acc.sample({"calls": calls, "garbage_positions": len(positions)})


# ------------------------------------------------------------------------------------------
# Client side
# ------------------------------------------------------------------------------------------


def run_client(spec, acc):
    from stepup.core import rpc as su_rpc
    from stepup.core.exceptions import GraphError, RPCError
    from stepup.core.rpc import RemoteFailure, SocketAsyncRPCClient, _encode_body, _encode_message

    def reply(cid, value):
        return _encode_message(cid, _encode_body(value))

    failure = RemoteFailure("stepup.core.exceptions", "GraphError", "bad", "tb", True)
    internal = RemoteFailure("stepup.core.exceptions", "ConsistencyError", "boom", "tb", False)
    scenarios = {
        "in_order": [reply(1, "r1"), reply(2, "r2"), reply(3, "r3")],
        "reordered": [reply(3, "r3"), reply(1, "r1"), reply(2, "r2")],
        "failure_mix": [reply(2, failure), reply(1, "r1"), reply(3, internal)],
        "sentinel": [reply(1, "r1"), _encode_message(2, None), reply(3, "r3")],
        "unknown_id": [reply(1, "r1"), reply(9, "zz"), reply(2, "r2")],
        "duplicate": [reply(1, "r1"), reply(1, "again"), reply(2, "r2")],
        "garbage_body": [reply(1, "r1"), _encode_message(2, b"\x80\x05nonsense"), reply(3, "r3")],
        "oversize": [reply(1, "r1"), (2).to_bytes(8, "big") + (2**33).to_bytes(8, "big")],
        "eof_early": [reply(1, "r1")],
    }
    expected = {
        "in_order": {1: "r1", 2: "r2", 3: "r3"},
        "reordered": {1: "r1", 2: "r2", 3: "r3"},
        "failure_mix": {1: "r1", 2: GraphError, 3: RPCError},
        "sentinel": {1: "r1", 2: RPCError, 3: "r3"},
        "unknown_id": {1: "r1", 2: ConnectionResetError, 3: ConnectionResetError},
        "duplicate": {1: "r1", 2: ConnectionResetError, 3: ConnectionResetError},
        "garbage_body": {1: "r1", 2: RPCError, 3: "r3"},
        "oversize": {1: "r1", 2: ConnectionResetError, 3: ConnectionResetError},
        "eof_early": {1: "r1", 2: ConnectionResetError, 3: ConnectionResetError},
    }
    for name, msgs in scenarios.items():
        stream = b"".join(msgs)
        offs = sorted({o for m in itertools.accumulate(len(x) for x in msgs) for o in range(max(1, m - 17), min(len(stream), m + 18))})
        cutsets = [[]] + [[o] for o in offs] + [list(range(1, len(stream)))]
        if spec["tier"] == "thorough":
            cutsets += [list(c) for c in itertools.combinations(offs[::2], 2)]
        for cuts in cutsets:
            env = Env()
            saved = asyncio.open_unix_connection
            saved_debug = __import__("os").environ.pop("STEPUP_DEBUG", None)
            try:
                reader = asyncio.StreamReader(loop=env.loop)
                writer = Writer()

                async def fake_open(path, reader=reader, writer=writer):
                    return reader, writer

                asyncio.open_unix_connection = fake_open
                client = SocketAsyncRPCClient("/nowhere")
                results = {}

                async def one(i, client=client, results=results):
                    try:
                        results[i] = ("value", await client(f"proc{i}", i))
                    except BaseException as exc:  # noqa: BLE001
                        results[i] = ("exc", type(exc))

                tasks = [env.loop.create_task(one(i)) for i in (1, 2, 3)]
                env.settle()
                sent = writer.frames()
                pieces, last = [], 0
                for c in cuts:
                    pieces.append(stream[last:c])
                    last = c
                pieces.append(stream[last:])
                for piece in pieces:
                    if piece:
                        reader.feed_data(piece)
                        env.settle()
                reader.feed_eof()
                env.settle()
                acc.evaluations += 1
                acc.transitions += len(pieces)
                acc.states.add(h8([name, cuts if len(cuts) < 5 else "bytes"]))
                acc.nontrivial.add(h8([name, cuts if len(cuts) < 5 else "bytes"]))
                key = f"client|{name}"
                what = {"scenario": name, "cuts": cuts if len(cuts) < 5 else "byte-by-byte", "results": repr(results)}
                if sorted(c for c, _ in sent) != [1, 2, 3]:
                    acc.violation(f"C16|{key}|requests", {"sent": [c for c, _ in sent], **what}, None)
                for i in (1, 2, 3):
                    exp = expected[name][i]
                    got = results.get(i)
                    if got is None:
                        acc.violation(f"C16|{key}|call-never-returns", {"call": i, **what}, None)
                    elif isinstance(exp, str):
                        if got != ("value", exp):
                            acc.violation(f"C16|{key}|wrong-result", {"call": i, "expected": exp, **what}, None)
                    elif got[0] != "exc" or not issubclass(got[1], exp):
                        acc.violation(f"C16|{key}|wrong-exception", {"call": i, "expected": exp.__name__, **what}, None)
                if client._pending:
                    acc.violation(f"C16|{key}|pending-left", what, None)
                if not all(t.done() for t in tasks):
                    acc.violation(f"C16|{key}|caller-blocked", what, None)
            finally:
                asyncio.open_unix_connection = saved
                if saved_debug is not None:
                    __import__("os").environ["STEPUP_DEBUG"] = saved_debug
                env.close()
    acc.sample({"client_scenarios": sorted(scenarios)})


def run_client_big(spec, acc):
    """Concurrent calls on one asynchronous client while the transport is slow: every `drain()`
    of the shared writer yields (once, or several times) so that another caller gets to write.
    Payloads of 10 B to 1 MiB in every combination over three callers. What the client put on
    the wire must parse into exactly one intact frame per call, each decoding to the call made."""
    import pickle

    from stepup.core.rpc import SocketAsyncRPCClient, _encode_body, _encode_message

    sizes = [10, 70_000, 300_000] if spec["tier"] == "quick" else [10, 65_536, 70_000, 300_000, 1_048_576]
    for combo in itertools.product(sizes, repeat=3):
        for yields in (1, 3):
            env = Env()
            saved = asyncio.open_unix_connection
            try:
                reader = asyncio.StreamReader(loop=env.loop)
                writer = Writer()

                async def drain(writer=writer, yields=yields):
                    for _ in range(yields):
                        await asyncio.sleep(0)

                writer.drain = drain

                async def fake_open(path, reader=reader, writer=writer):
                    return reader, writer

                asyncio.open_unix_connection = fake_open
                client = SocketAsyncRPCClient("/nowhere")
                results = {}
                payloads = {i: bytes([65 + i]) * n for i, n in zip((1, 2, 3), combo, strict=True)}

                async def one(i, client=client, results=results, payloads=payloads):
                    try:
                        results[i] = ("value", await client(f"proc{i}", payloads[i]))
                    except BaseException as exc:  # noqa: BLE001
                        results[i] = ("exc", type(exc))

                tasks = [env.loop.create_task(one(i)) for i in (1, 2, 3)]
                env.settle()
                acc.evaluations += 1
                acc.nontrivial.add(h8(["big", combo, yields]))
                acc.states.add(h8(["big", combo, yields]))
                what = {"payload_sizes": combo, "yields_per_drain": yields}
                frames = writer.frames()
                seen = {}
                bad = None
                for cid, body in frames:
                    try:
                        call = pickle.loads(body)
                        seen[cid] = (call.name, len(call.args[0]), set(call.args[0]))
                    except Exception as exc:  # noqa: BLE001
                        bad = f"frame {cid}: {type(exc).__name__}"
                want = {i: (f"proc{i}", combo[i - 1], {65 + i}) for i in (1, 2, 3)}
                if bad or sorted(seen.values(), key=repr) != sorted(want.values(), key=repr):
                    acc.violation("C16|client-big|frames-spliced",
                                  {**what, "decoded": {k: (v[0], v[1], sorted(v[2])) for k, v in seen.items()},
                                   "undecodable": bad, "frames": [(c, len(b or b"")) for c, b in frames]}, None)
                    continue
                # answer every call with the size of its payload and check the pairing
                for cid, body in frames:
                    call = pickle.loads(body)
                    reader.feed_data(_encode_message(cid, _encode_body((call.name, len(call.args[0])))))
                env.settle()
                reader.feed_eof()
                env.settle()
                for i in (1, 2, 3):
                    if results.get(i) != ("value", (f"proc{i}", combo[i - 1])):
                        acc.violation("C16|client-big|wrong-result", {**what, "call": i, "results": repr(results)[:300]}, None)
                if not all(t.done() for t in tasks):
                    acc.violation("C16|client-big|caller-blocked", what, None)
            finally:
                asyncio.open_unix_connection = saved
                env.close()


def run_client_cancel(spec, acc):
    """Three concurrent calls on one asynchronous client, blocked in `drain()` after their
    requests were written; every subset of callers is cancelled there, the buffer drains, and the
    server answers ALL requests it received, in every order. The callers that were not cancelled
    must get their own results: a response to a cancelled call is nobody's business."""
    import pickle

    from stepup.core.rpc import SocketAsyncRPCClient, _encode_body, _encode_message

    for ncancel in (1, 2):
        for cancelled in itertools.combinations((1, 2, 3), ncancel):
            for order in itertools.permutations((1, 2, 3)):
                env = Env()
                saved = asyncio.open_unix_connection
                try:
                    reader = asyncio.StreamReader(loop=env.loop)
                    writer = Writer()
                    gate = env.loop.create_future()

                    async def drain(gate=gate):
                        await asyncio.shield(gate)

                    writer.drain = drain

                    async def fake_open(path, reader=reader, writer=writer):
                        return reader, writer

                    asyncio.open_unix_connection = fake_open
                    client = SocketAsyncRPCClient("/nowhere")
                    results = {}

                    async def one(i, client=client, results=results):
                        try:
                            results[i] = ("value", await client(f"proc{i}", i))
                        except BaseException as exc:  # noqa: BLE001
                            results[i] = ("exc", type(exc).__name__)

                    tasks = {i: env.loop.create_task(one(i)) for i in (1, 2, 3)}
                    env.settle()
                    for i in cancelled:
                        tasks[i].cancel()
                    env.settle()
                    gate.set_result(None)
                    env.settle()
                    ids = {pickle.loads(b).name: cid for cid, b in writer.frames()}
                    for i in order:
                        reader.feed_data(_encode_message(ids[f"proc{i}"], _encode_body(f"r{i}")))
                        env.settle()
                    reader.feed_eof()
                    env.settle()
                    acc.evaluations += 1
                    acc.nontrivial.add(h8(["cancel", cancelled, order]))
                    acc.states.add(h8(["cancel", cancelled, order]))
                    for i in (1, 2, 3):
                        want = ("exc", "CancelledError") if i in cancelled else ("value", f"r{i}")
                        if results.get(i) != want:
                            acc.violation("C16|client-cancel|other-call-disturbed",
                                          {"cancelled_callers": cancelled, "reply_order": order, "call": i,
                                           "expected": want, "results": repr(results)}, None)
                            break
                finally:
                    asyncio.open_unix_connection = saved
                    env.close()


class ScriptedSocket:
    """A blocking socket whose recv() returns scripted fragments."""

    def __init__(self, fragments):
        self.fragments = list(fragments)
        self.sent = bytearray()
        self.closed = False
        self.timeout = None

    def settimeout(self, t):
        self.timeout = t

    def connect(self, path):
        pass

    def sendall(self, data):
        self.sent += data

    def recv(self, n):
        if not self.fragments:
            return b""
        frag = self.fragments.pop(0)
        if isinstance(frag, BaseException):
            raise frag
        if len(frag) > n:
            self.fragments.insert(0, frag[n:])
            frag = frag[:n]
        return frag

    def close(self):
        self.closed = True


def run_sync(spec, acc):
    import os
    import socket as pysocket

    from stepup.core import rpc as su_rpc
    from stepup.core.exceptions import GraphError, RPCClientUnusableError, RPCError
    from stepup.core.rpc import RemoteFailure, SocketSyncRPCClient, _encode_body, _encode_message

    def reply(cid, value):
        return _encode_message(cid, _encode_body(value))

    failure = RemoteFailure("stepup.core.exceptions", "GraphError", "bad", "tb", True)
    saved_debug = os.environ.pop("STEPUP_DEBUG", None)
    saved_socket = pysocket.socket
    try:
        cases = {
            "ok": ([reply(1, "r1"), reply(2, "r2")], ["r1", "r2"]),
            "usage": ([reply(1, failure), reply(2, "r2")], [GraphError, "r2"]),
            "sentinel": ([_encode_message(1, None), reply(2, "r2")], [RPCError, "r2"]),
            "wrong_id": ([reply(7, "stale"), reply(1, "r1"), reply(2, "r2")], [RPCError, RPCClientUnusableError]),
            "timeout": ([TimeoutError("t"), reply(1, "late"), reply(2, "r2")], [TimeoutError, RPCClientUnusableError]),
            "eof": ([b""], [ConnectionResetError, RPCClientUnusableError]),
            "half_header": ([reply(1, "r1")[:9], TimeoutError("t"), reply(1, "r1")[9:], reply(2, "r2")],
                            [TimeoutError, RPCClientUnusableError]),
        }
        for name, (msgs, expected) in cases.items():
            stream_parts = [m for m in msgs]
            # fragmentations of the byte parts: whole, split in two at every offset, byte by byte
            variants = [stream_parts]
            flat = b"".join(m for m in msgs if isinstance(m, bytes))
            if all(isinstance(m, bytes) for m in msgs) and flat:
                for cut in range(1, len(flat)):
                    variants.append([flat[:cut], flat[cut:]])
                variants.append([flat[i : i + 1] for i in range(len(flat))])
            for frags in variants:
                sock = ScriptedSocket(frags)
                pysocket.socket = lambda *a, sock=sock, **k: sock
                su_rpc.socket.socket = pysocket.socket
                client = SocketSyncRPCClient("/nowhere")
                got = []
                for i in (1, 2):
                    try:
                        got.append(client(f"proc{i}", i, _rpc_timeout=1.0))
                    except BaseException as exc:  # noqa: BLE001
                        got.append(type(exc))
                acc.evaluations += 1
                acc.nontrivial.add(h8([name, len(frags)]))
                acc.states.add(h8([name, len(frags), repr(got)]))
                for g, e in zip(got, expected):
                    ok = (g == e) if isinstance(e, str) else (isinstance(g, type) and issubclass(g, e))
                    if not ok:
                        acc.violation(f"C16|sync|{name}", {"case": name, "fragments": len(frags),
                                                           "got": repr(got), "expected": repr(expected)}, None)
                        break
                if "stale" in got or "late" in got:
                    acc.violation(f"C16|sync|stale-reply-delivered|{name}", {"got": repr(got)}, None)
    finally:
        pysocket.socket = saved_socket
        su_rpc.socket.socket = saved_socket
        if saved_debug is not None:
            os.environ["STEPUP_DEBUG"] = saved_debug
    acc.sample({"sync_cases": sorted(cases)})


def run_burst(spec, acc):
    """N calls in flight on one connection that complete in the same loop iteration (they wait
    for one event), delivered in one piece or one message per feed; before or after, further
    ordinary calls. Every call gets exactly one reply with its own value."""
    from stepup.core.rpc import RPCServerConnection

    for n in spec["sizes"]:
        for piecewise in (False, True):
            for tail in (0, 3):
                env = Env()
                try:
                    handler = make_handler(env)
                    msgs = [encode_call(i + 1, "barrier", "b", i) for i in range(n)]
                    msgs += [encode_call(n + 1 + j, "echo", j) for j in range(tail)]
                    reader = asyncio.StreamReader(loop=env.loop)
                    writer = Writer()
                    conn = RPCServerConnection(handler, reader, writer)
                    serve = env.loop.create_task(conn.serve())
                    if piecewise:
                        for m in msgs:
                            reader.feed_data(m)
                            env.settle(5_000_000)
                    else:
                        reader.feed_data(b"".join(msgs))
                        env.settle(5_000_000)
                    env.barriers.setdefault("b", asyncio.Event()).set()
                    env.settle(5_000_000)
                    reader.feed_eof()
                    env.settle(5_000_000)
                    acc.evaluations += 1
                    acc.transitions += n + tail + 2
                    acc.nontrivial.add(h8(["burst", n, piecewise, tail]))
                    frames = {}
                    for cid, body in writer.frames():
                        frames.setdefault(cid, []).append(body)
                    missing = [i + 1 for i in range(n + tail) if len(frames.get(i + 1, [])) == 0]
                    dup = [cid for cid, fr in frames.items() if len(fr) > 1]
                    wrong = []
                    for i in range(n):
                        fr = frames.get(i + 1)
                        if fr and len(fr) == 1 and fr[0] is not None and pickle.loads(fr[0]) != ("barrier", "b", i):
                            wrong.append(i + 1)
                    if missing or dup or wrong:
                        acc.violation(f"C16|server|burst|{'missing' if missing else 'dup' if dup else 'wrong'}",
                                      {"why": "calls completing in one burst did not each get exactly one reply",
                                       "calls_in_flight": n, "piecewise": piecewise, "extra_calls": tail,
                                       "unanswered": missing[:10], "n_unanswered": len(missing),
                                       "duplicates": dup[:10], "mispaired": wrong[:10],
                                       "unhandled": [str(c.get("message")) for c in env.loop.unhandled][:3]}, None)
                finally:
                    env.close()


def run_realsocket(spec, acc):
    """Conformance of the in-memory transport: the same handler behind the real SocketRPCServer on
    a real unix socket, called through the real asynchronous and synchronous clients on a real
    event loop; every call sequence of the menu, gated calls released in both orders. The replies
    must be what the exploration on in-memory streams expects for these calls."""
    import os
    import threading

    from stepup.core.rpc import RemoteFailure, SocketAsyncRPCClient, SocketRPCServer, SocketSyncRPCClient

    from ..runner import scratch_dir

    class RealEnv:
        def __init__(self):
            self.gates = {}
            self.barriers = {}

        async def gate(self, tag):
            fut = asyncio.get_running_loop().create_future()
            self.gates[tag] = fut
            try:
                await fut
            finally:
                self.gates.pop(tag, None)

    def classify(name, args, res):
        exp = expected_reply(name, args)
        if exp[0] == "value":
            return res == exp[1]
        if exp[0] == "usage":
            return isinstance(res, BaseException) and type(res).__name__ == exp[1]
        # internal errors, refused and unpicklable results all surface as an exception that is not
        # the handler's own usage error
        return isinstance(res, BaseException) and type(res).__name__ != "GraphError"

    async def session(calls, order):
        env = RealEnv()
        handler = make_handler(env)
        path = os.path.join(scratch_dir("c16s"), "sock")
        stop = asyncio.Event()
        server = SocketRPCServer(handler, path)
        stask = asyncio.create_task(server.serve(stop))
        for _ in range(200):
            if os.path.exists(path):
                break
            await asyncio.sleep(0.005)
        client = SocketAsyncRPCClient(path)
        tasks = [asyncio.create_task(client(n, *a)) for n, a in calls]
        gated = [a[0] for n, a in calls if n in ("slow", "doomed")]
        for _ in range(4000):
            if all(g in env.gates for g in gated):
                break
            await asyncio.sleep(0.005)
        for tag in (gated if order == 0 else list(reversed(gated))):
            fut = env.gates.get(tag)
            if fut is not None and not fut.done():
                fut.cancel() if tag.startswith("x") else fut.set_result(None)
            await asyncio.sleep(0.005)
        done = await asyncio.wait_for(asyncio.gather(*tasks, return_exceptions=True), 60)
        # the synchronous client, from a thread, for the calls that need no gate
        sync_results = []
        plain = [(n, a) for n, a in calls if n not in ("slow", "doomed", "unpicklable")]

        def sync_part():
            c = SocketSyncRPCClient(path)
            try:
                for n, a in plain:
                    try:
                        sync_results.append(c(n, *a))
                    except BaseException as exc:  # noqa: BLE001
                        sync_results.append(exc)
            finally:
                c.close()

        th = threading.Thread(target=sync_part)
        th.start()
        while th.is_alive():
            await asyncio.sleep(0.005)
        await client.close()
        stop.set()
        await asyncio.wait_for(stask, 60)
        return done, plain, sync_results

    for calls in spec["callsets"]:
        calls = [(n, tuple(a)) for n, a in calls]
        for order in (0, 1):
            done, plain, sync_results = asyncio.run(session(calls, order))
            acc.evaluations += 1
            acc.validated += 1
            acc.nontrivial.add(h8(["real", calls, order]))
            # an unpicklable result ends the connection after its sentinel: the other calls of the
            # same connection may then lose their reply (the in-memory judge allows the same)
            lossy = any(n == "unpicklable" for n, _ in calls)
            bad = [(n, a, repr(r)[:120]) for (n, a), r in zip(calls, done)
                   if not classify(n, a, r) and not (lossy and isinstance(r, ConnectionError))]
            bad += [("sync:" + n, a, repr(r)[:120]) for (n, a), r in zip(plain, sync_results) if not classify(n, a, r)]
            if bad:
                acc.violation(f"C16|realsocket|{[c[0] for c in calls]}",
                              {"why": "replies over the real unix socket differ from what the in-memory exploration expects",
                               "calls": calls, "release_order": order, "unexpected": bad}, None)


def exposed_by_source():
    """Names decorated with @allow_rpc in the source of DirectorHandler (read from the syntax
    tree, independently of what the running object answers)."""
    import ast
    import inspect

    from stepup.core import director

    tree = ast.parse(inspect.getsource(director))
    out = set()
    for cls in ast.walk(tree):
        if isinstance(cls, ast.ClassDef) and cls.name == "DirectorHandler":
            for fn in cls.body:
                if isinstance(fn, (ast.FunctionDef, ast.AsyncFunctionDef)):
                    for dec in fn.decorator_list:
                        name = dec.id if isinstance(dec, ast.Name) else getattr(dec, "attr", None)
                        if name == "allow_rpc":
                            out.add(fn.name)
    return out


def run_exposed(spec, acc):
    """The real DirectorHandler of a wired director, holding a real ReporterClient: every name
    that can be looked up on it (its attributes and methods, those of the objects it holds,
    dunder names, dotted names) is called through the real dispatch with several argument
    shapes. Only the procedures decorated in the source may be invoked; everything else must be
    refused without touching the reporter, the scheduler or the stored workflow."""
    from stepup.core import rpc as su_rpc
    from stepup.core.reporter import ReporterClient
    from stepup.core.rpc import BaseAsyncRPCClient, RemoteFailure, RPCCall

    from .. import opx

    class Rec(BaseAsyncRPCClient):
        def __init__(self):
            self.calls = []

        async def __call__(self, name, /, *args, **kwargs):
            self.calls.append((name, args))

    m = opx.Machine(menu=[], njob=2, targets_menu=((),), fs_events=False)
    world = m.new_world()
    sim = m.start_session(world, ())
    try:
        m.settle(sim)
        handler = sim.handler
        rec = Rec()
        handler.reporter = ReporterClient(rec)
        allowed = exposed_by_source()
        names = set(dir(handler)) | set(vars(handler)) if hasattr(handler, "__dict__") else set(dir(handler))
        held = {}
        for n in list(names):
            try:
                obj = getattr(handler, n)
            except Exception:  # noqa: BLE001
                continue
            if not n.startswith("__") and not callable(obj) or hasattr(obj, "__dict__") or hasattr(obj, "__slots__"):
                held[n] = obj
        for n, obj in held.items():
            for sub in dir(obj):
                if not sub.startswith("__"):
                    names.add(sub)
                    names.add(f"{n}.{sub}")
        names |= {"__call__", "__init__", "__class__", "__getattribute__", "__dict__", "", "reporter", "call"}
        shapes = [(), (1,), ("TAG", "forged", None), ("TAG", "forged", []), (1, [], [], [], [])]
        base = sim.graph_text()
        draining0 = handler.scheduler.draining
        for name in sorted(names):
            if name in allowed:
                # exposed procedures are exercised by the other properties (and change state)
                continue
            for args in shapes:
                task = sim.loop.create_task(su_rpc._call_and_capture_failure(handler, RPCCall(name, args, {})))
                for _ in range(1000):
                    sim.loop.run_ready()
                    if task.done():
                        break
                    auto = [g for g in sim.enabled() if getattr(g, "kind", None) in ("hash", "rep")]
                    if not auto:
                        break
                    sim.fire(auto[0])
                acc.evaluations += 1
                acc.nontrivial.add(h8(["exposed", name, args]))
                reply = task.result() if task.done() else "no reply"
                refused = isinstance(reply, RemoteFailure) and (
                    "is not allowed" in reply.message or "Unknown remote procedure" in reply.message)
                effects = []
                if rec.calls:
                    effects.append({"reporter_calls": list(rec.calls)})
                    rec.calls.clear()
                if handler.scheduler.draining != draining0:
                    effects.append("scheduler.draining changed")
                if sim.graph_text() != base:
                    effects.append("stored workflow changed")
                if not refused or effects:
                    acc.violation(f"C16|exposed|{name}",
                                  {"procedure": name, "args": repr(args), "reply": repr(reply)[:300],
                                   "effects": effects, "exposed_in_source": sorted(allowed)}, None)
        acc.states.add(h8(sorted(names)))
        acc.count("names_tried", len(names))
        acc.sample({"exposed_in_source": sorted(allowed), "names_tried": len(names)})
    finally:
        sim.close()
        world.destroy()


def run_job(spec):
    import logging

    logging.getLogger("stepup.core.rpc").setLevel(logging.CRITICAL)
    logging.getLogger("asyncio").setLevel(logging.CRITICAL)
    import sys

    sys.unraisablehook = lambda u: None
    acc = Acc()
    part = spec["part"]
    if part == "frag":
        run_frag(spec, acc)
    elif part == "trunc":
        run_trunc(spec, acc)
    elif part == "garbage":
        run_garbage(spec, acc)
    elif part == "client":
        run_client(spec, acc)
    elif part == "sync":
        run_sync(spec, acc)
    elif part == "burst":
        run_burst(spec, acc)
    elif part == "realsocket":
        run_realsocket(spec, acc)
    elif part == "exposed":
        run_exposed(spec, acc)
    elif part == "client_big":
        run_client_big(spec, acc)
    elif part == "client_cancel":
        run_client_cancel(spec, acc)
    return acc


def replay(doc):
    import json

    print(json.dumps(doc.get("what"), indent=1, default=str)[:4000])
    return 0
