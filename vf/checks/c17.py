"""C17: named glob matching is consistent with the file system and with itself (FUNX)."""

import glob as stdglob
import itertools
import os
import re
import shutil

from .. import refglob
from ..runner import Acc, h8, scratch_dir

LEVEL = "exploration"
RULE = (
    "all well-formed relative patterns of up to L tokens (quick L=3 on trees with up to 2 entries; thorough L=4 on trees "
    "with up to 2 entries and L=3 on trees with up to 3 entries) over {a b . / * ? [ab] [!a] ** ${*n} ${*m}} "
    "with each substitution set, on all directory trees with up to E entries over names "
    "{a b ab .a} (files and directories, nested), realized on tmpfs; the recorded set after "
    "NamedGlob.glob() is compared with a reference backtracking matcher and with the standard "
    "glob, anonymous * is replaced by a fresh named wildcard, every pair of trees that differ in "
    "up to two entries is pushed through will_change, and every path accepted by extend() must "
    "be returned by a scan of a tree that contains it; non-trivial: the pattern matches at least "
    "one path of the tree"
)
ASSUMPTIONS = ["patterns with '.' or '..' components and absolute patterns are not enumerated"]

TOKENS = ["a", "b", ".", "/", "*", "?", "[ab]", "[!a]", "**", "${*n}", "${*m}"]
# an explicit "*" must behave exactly like the default of a named wildcard
SUBS = [{}, {"n": "?*"}, {"n": "*"}, {"n": "[ab]", "m": "a*"}, {"n": "?"}, {"n": "***", "m": "*"}]
NAMES = ["a", "b", "ab", ".a"]


def patterns(maxlen):
    out = []
    for n in range(1, maxlen + 1):
        for toks in itertools.product(TOKENS, repeat=n):
            p = "".join(toks)
            if p.startswith("/") or "//" in p:
                continue
            comps = p.rstrip("/").split("/")
            if any(c in (".", "..", "") for c in comps):
                continue
            if "***" in p:
                continue
            out.append(p)
    return sorted(set(out), key=lambda s: (len(s), s))


def candidate_paths(depth):
    out = []
    for d in range(1, depth + 1):
        for comps in itertools.product(NAMES, repeat=d):
            out.append("/".join(comps))
    return out


def trees(max_entries, depth):
    """Trees as {path: is_dir}; an entry is a file or an empty directory, parents are directories."""
    cands = candidate_paths(depth)
    seen = set()
    out = []
    for k in range(0, max_entries + 1):
        for combo in itertools.combinations(cands, k):
            for kinds in itertools.product((False, True), repeat=k):
                tree = {}
                ok = True
                for path, is_dir in zip(combo, kinds):
                    parts = path.split("/")
                    for i in range(1, len(parts)):
                        parent = "/".join(parts[:i])
                        if tree.get(parent) is False:
                            ok = False
                        tree[parent] = True
                    if path in tree and tree[path] != is_dir:
                        ok = False
                    tree[path] = is_dir
                if not ok:
                    continue
                key = tuple(sorted(tree.items()))
                if key not in seen:
                    seen.add(key)
                    out.append(tree)
    return out


def realize(root, tree):
    shutil.rmtree(root, ignore_errors=True)
    os.makedirs(root)
    for path, is_dir in sorted(tree.items()):
        ap = os.path.join(root, path)
        if is_dir:
            os.makedirs(ap, exist_ok=True)
        else:
            os.makedirs(os.path.dirname(ap), exist_ok=True)
            open(ap, "w").close()


def std_pattern(pattern, subs):
    """The conventional pattern: names replaced by their sub-pattern, neighbouring single stars
    merged (two adjacent wildcards are not the recursive `**`). None when not expressible."""
    toks = re.findall(r"\$\{\*[a-zA-Z0-9_]+\}|\*\*|\[[^\]]*\]|.", pattern)
    out = []
    for t in toks:
        if t.startswith("${*"):
            t = subs.get(t[3:-1], "*")
        if t == "*" and out and out[-1].endswith("*") and out[-1] != "**":
            continue
        if t.startswith("*") and t != "**" and out and out[-1] == "*":
            t = t[1:]
        out.append(t)
    res = "".join(out)
    for comp in res.split("/"):
        if "**" in comp and comp != "**":
            return None
    return res


def names_in(pattern):
    return re.findall(r"\$\{\*([a-zA-Z0-9_]+)\}", pattern)


def classify(pattern, missing, extra, subs=None):
    """Known discrepancy classes, keyed by what the pattern looks like (not by the tree). A tree
    may show two classes at once (one explains the extra paths, another the missing ones): the
    result is then both names joined by '+', only if each side is explained on its own."""
    if missing and extra:
        ce, cm = _classify1(pattern, [], extra, subs), _classify1(pattern, missing, [], subs)
        return f"{cm}+{ce}" if ce and cm else None
    return _classify1(pattern, missing, extra, subs)


def _classify1(pattern, missing, extra, subs=None):
    if pattern.endswith("/**") and not missing and extra == [pattern[:-2]]:
        return "trailing-recursive-wildcard-records-its-base-even-when-it-is-no-directory"
    if extra and not missing and only_by_empty_last_component(pattern, subs or {}, extra):
        return "last-component-of-several-wildcards-matches-empty"
    if extra and not missing and only_by_negated_set(pattern, subs or {}, extra):
        # the scan filters the standard glob's result through the same regex, so a directory can
        # be recorded because [!a] took its trailing separator
        return "negated-set-matches-separator"
    if pattern.endswith("/") or extra or not missing or not all(m.endswith("/") for m in missing):
        return None
    subs = subs or {}
    m = re.search(r"\$\{\*(\w+)\}$", pattern)
    ends_with_star = pattern.endswith("*") or (
        m is not None and subs.get(m.group(1), "*") == "*"
        and pattern.count("${*" + m.group(1) + "}") == 1  # a repeated name ends in a back-reference
    )
    if not ends_with_star:
        return "directory-match-dropped-unless-pattern-ends-with-star"
    return None


def only_by_negated_set(pattern, subs, paths):
    """True when `paths` are accepted only because a negated set [!..] matched a separator."""
    from stepup.core.nglob import convert_nglob_to_regex

    if "[!" not in pattern and not any("[!" in v for v in subs.values()):
        return False
    regex = convert_nglob_to_regex(pattern, dict(subs))
    fixed = re.sub(r"\[\^([^\]]*)\]", r"[^\1/]", regex)
    return all(re.fullmatch(fixed, p) is None for p in paths)


def only_by_empty_last_component(pattern, subs, paths):
    """True when every path of `paths` is a directory (trailing separator) that the regex accepts
    only because the last component of the pattern, made of several wildcards, matches the empty
    string: `*/${*m}*` accepts `a/`, which no scan of any tree returns for that pattern."""
    from stepup.core.nglob import convert_nglob_to_regex

    if "/" not in pattern.rstrip("/"):
        return False
    head, tail = pattern.rstrip("/").rsplit("/", 1)
    try:
        tail_rx = convert_nglob_to_regex(tail, dict(subs))
        head_rx = convert_nglob_to_regex(head, dict(subs))
    except Exception:  # noqa: BLE001
        return False
    if re.fullmatch(tail_rx, "") is None:
        return False
    return bool(paths) and all(p.endswith("/") and re.fullmatch(head_rx, p[:-1]) is not None for p in paths)


def jobs(tier, seed):
    # quick: patterns of up to 3 tokens on trees of up to 2 entries;
    # thorough: patterns of up to 4 tokens on trees of up to 2 entries, and patterns of up to 3
    # tokens on trees of up to 3 entries (the full product of both maxima is about 1.5 hours)
    groups = [(3, 2, 1)] if tier == "quick" else [(4, 2, 1), (3, 3, 2)]
    out = []
    chunk = 60 if tier == "quick" else 150
    subsets = SUBS[:3] if tier == "quick" else SUBS
    for L, E, dist in groups:
        pats = patterns(L)
        for si, subs in enumerate(subsets):
            for lo in range(0, len(pats), chunk):
                batch = [p for p in pats[lo : lo + chunk] if si == 0 or names_in(p)]
                if batch:
                    out.append({"pats": batch, "subs": subs, "E": E, "depth": 2, "dist": dist})
    return out


def run_job(spec):
    from stepup.core.nglob import NamedGlob

    acc = Acc()
    subs = spec["subs"]
    all_trees = trees(spec["E"], spec["depth"])
    root = scratch_dir("c17")
    cwd = os.getcwd()
    universe = []
    for p in candidate_paths(spec["depth"]):
        universe.extend([p, p + "/"])
    scans = {}
    try:
        for ti, tree in enumerate(all_trees):
            realize(root, tree)
            os.chdir(root)
            for pattern in spec["pats"]:
                try:
                    ng = NamedGlob(pattern, dict(subs))
                except (ValueError, re.error):
                    acc.count("rejected_patterns")
                    continue
                ng.glob()
                recorded = {str(p) for p in ng.files()}
                scans[(pattern, ti)] = recorded
                acc.evaluations += 1
                expected = refglob.scan(pattern, tree, subs)
                if expected:
                    acc.nontrivial.add(h8([pattern, sorted(subs.items()), ti]))
                acc.states.add(h8([pattern, sorted(recorded)]))
                if recorded != expected:
                    missing, extra = sorted(expected - recorded), sorted(recorded - expected)
                    cls = classify(pattern, missing, extra, subs)
                    key = f"C17|scan|{cls}" if cls else f"C17|scan|{pattern}|{sorted(subs.items())}|{sorted(tree.items())}"
                    acc.violation(key, {"check": "recorded set vs reference matcher", "pattern": pattern,
                                        "subs": subs, "tree": tree, "recorded": sorted(recorded),
                                        "reference": sorted(expected)}, None)
                names = names_in(pattern)
                sp = std_pattern(pattern, subs)
                if len(names) == len(set(names)) and sp is not None:
                    std = set()
                    for p in stdglob.glob(sp, recursive=True, include_hidden=True):
                        std.add(p.rstrip("/") + "/" if os.path.isdir(p) else p)
                    acc.evaluations += 1
                    if std != recorded:
                        missing, extra = sorted(std - recorded), sorted(recorded - std)
                        cls = classify(pattern, missing, extra, subs)
                        key = f"C17|stdglob|{cls}" if cls else f"C17|stdglob|{pattern}|{sorted(subs.items())}|{sorted(tree.items())}"
                        acc.violation(key, {"check": "recorded set vs glob.glob(recursive, include_hidden)",
                                            "pattern": pattern, "subs": subs, "tree": tree,
                                            "recorded": sorted(recorded), "stdlib": sorted(std)}, None)
                # anonymous * replaced by a fresh named wildcard
                if "*" in re.sub(r"\$\{\*\w+\}|\*\*", "", pattern):
                    idx = [m.start() for m in re.finditer(r"(?<![*{])\*(?![*])", pattern)]
                    for i in idx[:1]:
                        named = pattern[:i] + "${*z}" + pattern[i + 1 :]
                        try:
                            ng2 = NamedGlob(named, dict(subs))
                        except (ValueError, re.error):
                            continue
                        ng2.glob()
                        rec2 = {str(p) for p in ng2.files()}
                        acc.evaluations += 1
                        if rec2 != recorded:
                            acc.violation(f"C17|rename|{pattern}|{sorted(tree.items())}",
                                          {"check": "anonymous * replaced by ${*z}", "pattern": pattern,
                                           "named": named, "tree": tree, "anonymous": sorted(recorded),
                                           "with_name": sorted(rec2)}, None)
                if len(acc.samples) < 3 and expected:
                    acc.sample({"pattern": pattern, "subs": subs, "tree": tree, "recorded": sorted(recorded)})
            os.chdir(cwd)
        # will_change against a fresh scan, for pairs of trees that differ in up to two entries
        def paths_of(tree):
            return {p + "/" if d else p for p, d in tree.items()}

        pairs = []
        small = [i for i, t in enumerate(all_trees) if all("ab" not in p.split("/") for p in t)]
        for i, j in itertools.permutations(small, 2):
            a, b = paths_of(all_trees[i]), paths_of(all_trees[j])
            d = a ^ b
            # distance in entries: an entry that changes its type (file <-> directory) is one
            # change although it shows as a deleted and an added path
            flip = len(d) == 2 and len({x.rstrip("/") for x in d}) == 1
            if 0 < len(d) <= spec.get("dist", 1) or flip:
                pairs.append((i, j, a, b))
        for pattern in spec["pats"]:
            try:
                NamedGlob(pattern, dict(subs))
            except (ValueError, re.error):
                continue
            for i, j, a, b in pairs:
                if (pattern, i) not in scans:
                    continue
                old = NamedGlob(pattern, dict(subs))
                old.extend(sorted(scans[(pattern, i)]))
                deleted, added = a - b, b - a
                evolved = old.will_change(deleted, added)
                got = {str(p) for p in (evolved if evolved is not None else old).files()}
                acc.evaluations += 1
                fresh = scans[(pattern, j)]
                if got != fresh:
                    cls = None
                    if got - fresh and not fresh - got and only_by_negated_set(pattern, subs, got - fresh):
                        cls = "negated-set-matches-separator"
                    elif pattern.endswith("/**") and got ^ fresh == {pattern[:-2]}:
                        cls = "trailing-recursive-wildcard-records-its-base-even-when-it-is-no-directory"
                    elif got - fresh and not fresh - got and only_by_empty_last_component(pattern, subs, got - fresh):
                        cls = "last-component-of-several-wildcards-matches-empty"
                    key = f"C17|will_change|{cls}" if cls else f"C17|will_change|{pattern}|{sorted(deleted)}|{sorted(added)}"
                    acc.violation(key, {"check": "will_change(deleted, added) vs fresh scan", "pattern": pattern,
                                        "subs": subs, "old_tree": sorted(a), "new_tree": sorted(b),
                                        "updated": sorted(got), "fresh_scan": sorted(fresh)}, None)
            # extend() accepts no path that a scan of a tree containing it would not return
            ng = NamedGlob(pattern, dict(subs))
            for p in universe:
                probe = NamedGlob(pattern, dict(subs))
                probe.extend([p])
                acc.evaluations += 1
                if probe.files():
                    tree = {}
                    parts = p.rstrip("/").split("/")
                    for k in range(1, len(parts)):
                        tree["/".join(parts[:k])] = True
                    tree[p.rstrip("/")] = p.endswith("/")
                    if p not in refglob.scan(pattern, tree, subs):
                        cls = "negated-set-matches-separator" if only_by_negated_set(pattern, subs, [p]) else None
                        if cls is None and only_by_empty_last_component(pattern, subs, [p]):
                            cls = "last-component-of-several-wildcards-matches-empty"
                        key = f"C17|extend|{cls}" if cls else f"C17|extend|{pattern}|{p}"
                        acc.violation(key, {"check": "extend() accepts a path no scan returns", "pattern": pattern,
                                            "subs": subs, "path": p}, None)
    finally:
        os.chdir(cwd)
    return acc


def replay(doc):
    import json

    print(json.dumps(doc.get("what"), indent=1, default=str)[:4000])
    return 0
