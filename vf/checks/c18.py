"""C18: 'under this directory' selects exactly the paths under it (FUNX on the real SQL sites)."""

import argparse
import asyncio
import itertools
import re
import os

from ..runner import Acc, h8, scratch_dir

LEVEL = "exploration"
RULE = (
    "all labels up to length L and all directory names up to length D over the alphabet "
    "{a A b % _ \\\\ . 0 - é [ ] /} (valid file labels only; directories that hold a complete "
    "wildcard cannot be declared as trees and are left out at the tree sites); the removed-"
    "directory site also over paths recorded only as glob matches; each selection site is called through its "
    "real entry point on a real Workflow database filled with the labels; the selected set must "
    "equal {label : label.startswith(directory + '/')}; non-trivial: a (directory, label) pair "
    "where the label shares a case-folded or wildcard-expanded prefix with the directory"
)
ASSUMPTIONS = [
    "every selection is a per-row predicate, so one database holding all labels decides all subsets",
    "labels longer than L are not enumerated; the predicate only ever inspects a prefix of the label",
]

ALPHA = ["a", "A", "b", "%", "_", "\\", ".", "0", "-", "é", "[", "]", "/"]


def valid_label(s):
    if not s or s.startswith("/") or s.endswith("/") or "//" in s:
        return False
    parts = s.split("/")
    if any(p in (".", "..", "") for p in parts):
        return False
    return not s.startswith(".stepup")


def labels(maxlen):
    out = []
    for n in range(1, maxlen + 1):
        for t in itertools.product(ALPHA, repeat=n):
            s = "".join(t)
            if valid_label(s):
                out.append(s)
    return out


def dirs(maxlen):
    out = []
    for n in range(1, maxlen + 1):
        for t in itertools.product(ALPHA, repeat=n):
            s = "".join(t)
            if valid_label(s):
                out.append(s + "/")
    return out


class WF:
    """A real Workflow on a scratch database with synchronous, rolled-back access."""

    def __init__(self, targets=(), target_dirs=()):
        from path import Path
        from stepup.core.scheduler import Scheduler
        from stepup.core.sqlite3 import DBSession, connect
        from stepup.core.workflow import Workflow

        self.dir = scratch_dir("c18")
        self.cwd = os.getcwd()
        os.chdir(self.dir)
        with open("plan.py", "w") as fh:
            fh.write("#!/usr/bin/env python3\n")
        self.db = DBSession()
        self.db._con = connect(os.path.join(self.dir, "graph.db"))
        self.loop = asyncio.new_event_loop()
        self.wf = Workflow(self.db, dir_queue=None, targets=targets,
                           target_dirs=[Path(d) for d in target_dirs])
        self.loop.run_until_complete(self.wf.initialize())
        self.sched = Scheduler(self.wf, db=self.db)
        self.loop.run_until_complete(self.sched.initialize(None))

        async def boot():
            async with self.db:
                self.wf.initialize_boot()

        self.loop.run_until_complete(boot())

    def tx(self, fn, commit=False):
        from stepup.core import sqlite3 as su_sqlite3

        from asyncio import events

        db = self.db
        db._held = su_sqlite3._Held(None, db._con, True)
        events._set_running_loop(self.loop)
        db._con.execute("BEGIN")
        try:
            res = fn()
            if commit:
                db._con.commit()
            return res
        finally:
            if db._con.in_transaction:
                db._con.rollback()
            db._held = None
            events._set_running_loop(None)

    def plan(self):
        from stepup.core.step import Step

        return self.wf.find(Step, "./plan.py")

    def close(self):
        self.db._con.close()
        self.loop.close()
        os.chdir(self.cwd)


def expected(label, d):
    return label.startswith(d)


def tricky(label, d):
    ld, dd = label.lower(), d.lower()
    return label != d and (ld.startswith(dd) != label.startswith(d) or "%" in d or "_" in d or "\\" in d
                           or label[: len(d) - 1] == d[:-1])


def site_adoption(w, labs, ds, acc):
    """register_static_tree: adoption of detached file nodes under the tree."""
    from stepup.core.enums import FileState
    from stepup.core.file import File

    def run(d):
        plan = w.plan()
        for lab in labs:
            w.wf.create(File, None, lab, state=FileState.UNDECLARED)
        w.wf.register_static_tree(plan, d)
        rows = w.db.execute(
            "SELECT n.label FROM node n JOIN node c ON c.i = n.creator WHERE c.kind = 'st' AND n.kind = 'file'"
        ).fetchall()
        return {r[0] for r in rows}

    for d in ds:
        got = w.tx(lambda d=d: run(d))
        compare(acc, "register_static_tree.adopt", d, labs, got)


def site_handover(w, labs, ds, acc):
    """register_static_tree: attached static files of the same creator are handed over."""
    def run(d):
        plan = w.plan()
        # the file with the tree's own name is that directory, not a path under it: a tree over
        # such a file is refused (as is the file after the tree)
        w.wf.declare_static_files(plan, [x for x in labs if x not in ("plan.py", d[:-1])])
        w.wf.register_static_tree(plan, d)
        rows = w.db.execute(
            "SELECT n.label FROM node n JOIN node c ON c.i = n.creator WHERE c.kind = 'st' AND n.kind = 'file'"
        ).fetchall()
        return {r[0] for r in rows}

    for d in ds:
        got = w.tx(lambda d=d: run(d))
        compare(acc, "register_static_tree.handover", d, labs, got)


def site_child_tree(w, ds, acc):
    """register_static_tree: an existing tree under the new one is refused."""
    from stepup.core.exceptions import GraphError

    for d1, d2 in itertools.product(ds, repeat=2):
        if d1 == d2:
            continue

        def run(d1=d1, d2=d2):
            plan = w.plan()
            w.wf.register_static_tree(plan, d1)
            try:
                w.wf.register_static_tree(plan, d2)
            except GraphError as exc:
                return str(exc)
            return None

        msg = w.tx(run)
        acc.evaluations += 1
        # same creator: d2 under d1 is a no-op; d1 under d2 must be refused as "parent directory"
        exp_parent = d1.startswith(d2)
        got_parent = msg is not None and "parent directory" in msg
        if tricky(d1, d2) or tricky(d2, d1):
            acc.nontrivial.add(h8(["child", d1, d2]))
        if exp_parent != got_parent:
            acc.violation(f"C18|register_static_tree.child|{d2}|{d1}",
                          {"site": "register_static_tree (existing child tree scan)", "existing_tree": d1,
                           "new_tree": d2, "expected_refusal": exp_parent, "message": msg}, None)


def site_owner(w, labs, ds, acc):
    """_find_owning_static_tree through its direct call."""
    for d in ds:
        def run(d=d):
            plan = w.plan()
            w.wf.register_static_tree(plan, d)
            out = set()
            for lab in labs:
                st = w.wf._find_owning_static_tree(lab)
                if st is not None:
                    out.add(lab)
            return out

        got = w.tx(run)
        compare(acc, "_find_owning_static_tree", d, labs, got)


def site_relevant(w, labs, ds, acc):
    def run():
        plan = w.plan()
        w.wf.declare_static_files(plan, [x for x in labs if x != "plan.py"])
        return {d: set(w.wf.relevant_paths_under(d)) for d in ds}

    res = w.tx(run)
    for d in ds:
        compare(acc, "relevant_paths_under", d, labs, res[d])


def site_relevant_glob(w, labs, ds, acc):
    """The other half of relevant_paths_under: paths that are recorded only as matches of glob
    patterns. Every label is a match of a pattern with a literal leading directory (`x/*` for
    x/y) or of `*`; no label has a file node."""
    from stepup.core.nglob import NamedGlob

    groups = {}
    for lab in labs:
        if lab == "plan.py":
            continue
        base = lab.rsplit("/", 1)[0] + "/*" if "/" in lab else "*"
        groups.setdefault(base, []).append(lab)

    def run():
        plan = w.plan()
        recorded = set()
        for pattern, members in sorted(groups.items()):
            try:
                ng = NamedGlob(pattern)
            except (ValueError, re.error):
                continue
            ng.extend(members)
            if not ng.files():
                continue
            w.wf.register_nglob(plan, ng)
            recorded.update(str(x) for x in ng.files())
        return recorded, {d: set(w.wf.relevant_paths_under(d)) for d in ds}

    recorded, res = w.tx(run)
    acc.count("glob_matches_recorded", len(recorded))
    for d in ds:
        compare(acc, "relevant_paths_under(glob matches)", d, sorted(recorded), res[d])


def site_output_under(w, labs, ds, acc):
    from stepup.core.enums import Need

    def run():
        plan = w.plan()
        out = {}
        for i, lab in enumerate(labs):
            w.wf.define_step(plan, f"cmd{i}", out_paths=[lab], need=Need.DEFAULT)
        # all outputs exist at once: query each directory, then per label via a second pass
        return {d: w.wf.has_regular_output_under(d) for d in ds}

    res = w.tx(run)
    for d in ds:
        acc.evaluations += 1
        exp = any(expected(lab, d) for lab in labs)
        if res[d] != exp:
            acc.violation(f"C18|has_regular_output_under|{d}", {"site": "has_regular_output_under", "dir": d,
                                                                "expected": exp, "got": res[d]}, None)


def site_output_under_single(w, labs, ds, acc):
    from stepup.core.enums import Need

    for lab in labs:
        def run(lab=lab):
            plan = w.plan()
            w.wf.define_step(plan, "cmd", out_paths=[lab], need=Need.DEFAULT)
            return {d: w.wf.has_regular_output_under(d) for d in ds}

        res = w.tx(run)
        for d in ds:
            acc.evaluations += 1
            if tricky(lab, d):
                acc.nontrivial.add(h8(["single", lab, d]))
            if res[d] != expected(lab, d):
                acc.violation(f"C18|has_regular_output_under|{d}|{lab}",
                              {"site": "has_regular_output_under", "dir": d, "label": lab,
                               "expected": expected(lab, d), "got": res[d]}, None)


def site_target_dir(labs, d, acc):
    """RECONCILE_TARGET_DIRS and the target_dir arm of UPDATE_CHECK_AFTER, one directory target."""
    from stepup.core.enums import Need

    w = WF(target_dirs=[d])
    try:
        def run():
            plan = w.plan()
            for i, lab in enumerate(labs):
                w.wf.define_step(plan, f"cmd{i}", out_paths=[lab], need=Need.DEFAULT)
            w.db.execute("UPDATE step SET _check_after = 0")
            w.wf.reconcile_targets()
            flagged = {r[0] for r in w.db.execute(
                "SELECT f.label FROM step JOIN dependency d ON d.source = step.node "
                "JOIN node f ON f.i = d.sink WHERE step._check_after AND f.kind = 'file'")}
            w.db.execute("UPDATE step SET _check_after = 1")
            w.sched._update_meta_after()
            elevated = {r[0] for r in w.db.execute(
                "SELECT f.label FROM step JOIN dependency d ON d.source = step.node "
                "JOIN node f ON f.i = d.sink WHERE step._implied_need = 33 AND f.kind = 'file'")}
            return flagged, elevated

        flagged, elevated = w.tx(run)
        compare(acc, "RECONCILE_TARGET_DIRS", d, labs, flagged)
        compare(acc, "UPDATE_CHECK_AFTER.target_dir", d, labs, elevated)
    finally:
        w.close()


def site_justified(w, labs, ds, acc):
    def run():
        plan = w.plan()
        out = {}
        for lab in labs:
            if lab == "plan.py":
                continue
            w.db.execute("SAVEPOINT s")
            w.wf.declare_static_files(plan, [lab])
            for d in ds:
                out[(lab, d)] = w.wf._is_justified_without_node(d, [])
            w.db.execute("ROLLBACK TO s")
        return out

    res = w.tx(run)
    for (lab, d), got in res.items():
        acc.evaluations += 1
        # plan.py is a static file too and is under no enumerated directory
        exp = expected(lab, d)
        if tricky(lab, d):
            acc.nontrivial.add(h8(["just", lab, d]))
        if got != exp:
            acc.violation(f"C18|_is_justified_without_node|{d}|{lab}",
                          {"site": "_is_justified_without_node", "dir": d, "static_file": lab,
                           "expected": exp, "got": got}, None)


def site_clean(w, labs, ds, acc):
    """`stepup clean DIR`: the selection runs on the connection the tool itself opens
    (tool.connect_graph_db: read-only), on a committed copy of the database."""
    import shutil

    from path import Path
    from stepup.core import clean as su_clean
    from stepup.core import tool as su_tool

    def run():
        plan = w.plan()
        w.wf.declare_static_files(plan, [x for x in labs if x != "plan.py"])
        # steps whose command text equals one of the file paths: a step is not a path, so
        # nothing it writes depends on the files the selection finds
        for i, lab in enumerate(x for x in labs if x != "plan.py"):
            if i % 7 == 0:
                w.wf.define_step(plan, lab, vol_paths=[f"zz{i}.log"])
        # the same selection inside the director's own (read-write) session
        return {d: su_clean.search_matching_paths(w.db._con, {Path(d[:-1])}) for d in ds}

    res_rw = w.tx(run, commit=True)
    w.db._con.execute("PRAGMA wal_checkpoint(TRUNCATE)")
    os.makedirs(os.path.join(w.dir, ".stepup"), exist_ok=True)
    shutil.copyfile(os.path.join(w.dir, "graph.db"), os.path.join(w.dir, ".stepup", "graph.db"))
    saved = os.environ.get("STEPUP_ROOT")
    os.environ["STEPUP_ROOT"] = w.dir
    try:
        con = su_tool.connect_graph_db()
        try:
            res_ro = {d: su_clean.search_matching_paths(con, {Path(d[:-1])}) for d in ds}
            for d in ds:
                acc.evaluations += 1
                dependents = su_clean.search_consuming_paths(con, sorted(res_ro[d]), False)
                foreign = sorted(str(r[0]) for r in dependents if str(r[0]).startswith("zz"))
                if foreign:
                    acc.violation(f"C18|clean.search_consuming_paths|step-named-like-a-path|{d}",
                                  {"site": "clean.search_consuming_paths", "directory": d,
                                   "why": "outputs of steps whose command text equals a selected path are "
                                          "selected although no file under the directory leads to them",
                                   "selected": foreign[:5]}, None)
        finally:
            con.close()
    finally:
        if saved is None:
            os.environ.pop("STEPUP_ROOT", None)
        else:
            os.environ["STEPUP_ROOT"] = saved
    for site, res in (("clean.search_matching_paths", res_rw), ("clean.search_matching_paths[tool connection]", res_ro)):
        for d in ds:
            got = {x for x in res[d] if x != "plan.py"}
            got_under = {x for x in got if x != d[:-1]}
            compare(acc, site, d, [x for x in labs if x != d[:-1]], got_under)


def compare(acc, site, d, labs, got):
    # a label equal to the directory name itself is that directory, not a path under it
    labs = [x for x in labs if x != d[:-1]]
    exp = {lab for lab in labs if expected(lab, d)}
    got = {g for g in got if g in set(labs)}
    acc.evaluations += len(labs)
    for lab in labs:
        if tricky(lab, d):
            acc.nontrivial.add(h8([site, lab, d]))
    acc.states.add(h8([site, d]))
    if got != exp:
        wrong_in = sorted(got - exp)[:5]
        wrong_out = sorted(exp - got)[:5]
        kind = "case" if all(x.lower().startswith(d.lower()) for x in wrong_in) and wrong_in and not wrong_out else "other"
        acc.violation(f"C18|{site}|{kind}|{d}|{(wrong_in + wrong_out)[0]}",
                      {"site": site, "directory": d, "selected_but_not_under": wrong_in,
                       "under_but_not_selected": wrong_out}, None)
    if len(acc.samples) < 3 and exp:
        acc.sample({"site": site, "directory": d, "selected": sorted(got)[:6]})


SITES = ["adopt", "handover", "child", "owner", "relevant", "relevant_glob", "output", "output1", "justified", "clean"]


def jobs(tier, seed):
    L = 3 if tier == "quick" else 4
    D = 2 if tier == "quick" else 3
    out = []
    ds = dirs(D)
    chunk = 12 if tier == "quick" else 30
    for site in SITES:
        for lo in range(0, len(ds), chunk):
            out.append({"site": site, "L": L, "D": D, "ds": ds[lo : lo + chunk], "first_chunk": lo == 0})
    for lo in range(0, len(ds), 4):
        out.append({"site": "target_dir", "L": min(L, 3), "D": D, "ds": ds[lo : lo + 4]})
    return out


def run_job(spec):
    acc = Acc()
    site = spec["site"]
    labs = labels(spec["L"] if site not in ("output1", "justified", "child") else min(spec["L"], 3))
    ds = spec["ds"]
    if site == "target_dir":
        sub = labels(2) + [x for x in labels(3) if x.count("/") == 1]
        for d in ds:
            site_target_dir(sub, d, acc)
        return acc
    if site in ("adopt", "handover", "child", "owner"):
        # a directory whose name holds a complete wildcard (`[a]`) cannot be declared as a
        # static tree at all (the workflow refuses it): nothing to select for it at these sites
        from stepup.core.nglob import has_any_wildcards

        ds = [d for d in ds if not has_any_wildcards(d)]
        if not ds:
            return acc
    w = WF()
    try:
        if site == "adopt":
            site_adoption(w, labs, ds, acc)
        elif site == "handover":
            site_handover(w, labs, ds, acc)
        elif site == "child":
            site_child_tree(w, [d for d in dirs(2) if not has_any_wildcards(d)], acc) if spec.get("first_chunk") else None
        elif site == "owner":
            site_owner(w, labs, ds, acc)
        elif site == "relevant":
            site_relevant(w, labs, ds, acc)
        elif site == "relevant_glob":
            # a literal base of two characters next to directories of one: `ab/x` and `a/`
            # and a literal base two levels deep below directories of one: `a/b/x` and `a/`
            chars = [c for c in ALPHA if c != "/"]
            deep = {f"{x}/{y}/{z}" for x in chars for y in chars for z in chars if valid_label(f"{x}/{y}/{z}")}
            site_relevant_glob(w, sorted(set(labs) | {x for x in labels(4) if len(x) == 4 and x[2] == "/"} | deep),
                               ds, acc)
        elif site == "output":
            site_output_under(w, labs, ds, acc)
        elif site == "output1":
            site_output_under_single(w, labels(2) + [x for x in labels(3) if "/" in x], ds, acc)
        elif site == "justified":
            site_justified(w, labels(2) + [x for x in labels(3) if "/" in x], ds, acc)
        elif site == "clean":
            site_clean(w, labs, ds, acc)
    finally:
        w.close()
    return acc


def replay(doc):
    import json

    print(json.dumps(doc.get("what"), indent=1, default=str)[:4000])
    return 0
