"""C19: exit status and final report tell the truth about the build (DIRX end states)."""

from .. import projects, refmodel
from ..dirx import describe, fresh_world, session
from ..explore import explore, split_roots
from ..harness import EnvEvent
from ..runner import Acc, h8

LEVEL = "model_checking"
RULE = (
    "every schedule with at most d deviations of failing, blocked, cyclic, deferring, resource "
    "and target projects, with and without keep-going, and with a `drain` request injected at any "
    "quiescent point; at the end of the phase the return code bits and the pending summary "
    "(re-computed through the real analyze_pending on the final database) are compared with a "
    "reference derived from the final step states; a drain requested by the harness must show "
    "in the DRAINED bit and an ERROR line excludes exit status 0; non-trivial: the build did not end with 0"
)
ASSUMPTIONS = [
    "INTERRUPTED and INTERNAL bits are added by the terminal process, outside this closed system",
    "the glob-product arm of the FAILED bit is exercised only where no other problem exists",
]

FAILED, WARNING, PENDING, DRAINED = 4, 8, 16, 32


def project_list(tier):
    out = []
    for kind in ("fail", "missing_input", "resource", "cycle", "defer_forever", "plan_fails"):
        for kg in (False, True):
            out.append((f"{kind}:kg{int(kg)}", ("f_fail", {"kind": kind}),
                        {"njob": 2, "keep_going": kg, "resources": "cpu:2"}, False))
    out.append(("resource_ok", ("f_resource", {}), {"njob": 2, "resources": "cpu:2"}, False))
    out.append(("selfprod:j1", ("f_selfprod", {}), {"njob": 1}, False))
    out.append(("optional:t", ("f_optional", {}), {"njob": 2, "targets": ["o1.txt"]}, False))
    out.append(("optional:tbad", ("f_optional", {}), {"njob": 2, "targets": ["nothing.txt"]}, False))
    out.append(("optional:tstatic", ("f_optional", {}), {"njob": 2, "targets": ["src.txt"]}, False))
    out.append(("optional:dirbad", ("f_optional", {}), {"njob": 2, "target_dirs": ["nowhere/"]}, False))
    # builds restricted to targets in which a required step stays pending: steps outside the
    # targets are pending too, by design, and must not be accounted for
    out.append(("missing_input:t", ("f_fail", {"kind": "missing_input"}), {"njob": 2, "targets": ["n.txt"]}, False))
    out.append(("resource:t", ("f_fail", {"kind": "resource"}), {"njob": 2, "resources": "cpu:2", "targets": ["s.txt"]}, False))
    out.append(("fail:kg:t", ("f_fail", {"kind": "fail"}), {"njob": 2, "keep_going": True, "targets": ["d.txt"]}, False))
    out.append(("defer_forever:t", ("f_fail", {"kind": "defer_forever"}), {"njob": 2, "targets": ["o.txt"]}, False))
    out.append(("many_missing", ("f_fail", {"kind": "many_missing"}), {"njob": 2}, False))
    out.append(("many_resources", ("f_fail", {"kind": "many_resources"}), {"njob": 2, "resources": "cpu:1"}, False))
    out.append(("chain:drain", ("f_chain", {}), {"njob": 2}, True))
    out.append(("fail:drain", ("f_fail", {"kind": "fail"}), {"njob": 2, "keep_going": True}, True))
    out.append(("glob_product", ("f_twoplans", {"kind": "glob_vs_output_conflict"}), {"njob": 1}, False))
    # second build with a target that is a static file the user deleted in between
    out.append(("target_deleted_static", ("f_chain", {"src_exists": 0}), {"njob": 2, "targets": ["src.txt"]}, False,
                ("f_chain", {})))
    out.append(("target_deleted_static+c", ("f_chain", {"src_exists": 0}), {"njob": 2, "targets": ["src.txt", "c.txt"]}, False,
                ("f_chain", {})))
    # second build in which a static file matched by a sub-plan's glob becomes a build product
    for nj in (1, 2):
        out.append((f"glob_product_late:j{nj}", ("f_fail", {"kind": "globprod2"}), {"njob": nj}, False,
                    ("f_fail", {"kind": "globprod1"})))
    # second build after a static input was replaced by a directory: the start-up scan cannot
    # hash it, reports an error and drains before the phase starts
    out.append(("static_became_dir", ("f_chain", {}), {"njob": 2}, False, ("f_chain", {}), [("to_dir", "src.txt")]))
    out.append(("glob_product_late+pending", ("f_fail", {"kind": "globprod2p"}), {"njob": 2}, False,
                ("f_fail", {"kind": "globprod1"})))
    # second builds: the first build leaves failed steps behind, the plan is then repaired
    for kg in (False, True):
        for first in ("child_and_plan_fail", "fail", "plan_fails"):
            out.append((f"repaired-after:{first}:kg{int(kg)}", ("f_fail", {"kind": "repaired"}),
                        {"njob": 2, "keep_going": kg}, False, ("f_fail", {"kind": first})))
    return out


def drain_events(sim):
    """A drain request at any quiescent point while a step runs, and also before the first step
    of the session was started (the request then precedes the build phase)."""
    if sim.handler is None or "drained" in sim.flags:
        return []
    early = not any(rec[1] == "START" for rec in sim.log)
    if not sim.running and not early:
        return []

    def fn(s):
        s.flags.add("drained")
        s.loop.create_task(s.handler.drain())

    return [EnvEvent("drain-early" if early and not sim.running else "drain", fn)]


def _run(spec, prefix):
    fam, knobs = spec["proj"]
    if spec.get("first"):
        fam1, knobs1 = spec["first"]
        files1 = getattr(projects, fam1)(**knobs1)
        w = fresh_world(files1, "c19")
        # the first build is a complete one: no targets
        session(w, {k: v for k, v in spec["cfg"].items() if k not in ("targets", "target_dirs")}, ())
        from .. import hist
        hist.sync(w, files1, getattr(projects, fam)(**knobs))
        for action, path in spec.get("act") or ():
            hist.user_action(w, action, path)
    else:
        w = fresh_world(getattr(projects, fam)(**knobs), "c19")
    cfg = dict(spec["cfg"])
    if spec["drain"]:
        cfg["env_events"] = drain_events
    summary = {}

    def wired(sim, handler):
        from stepup.core import finalize as su_finalize
        from stepup.core import pending as su_pending

        orig = su_pending._analyze_pending

        def analyze(workflow):
            s, totals = orig(workflow)
            summary["summary"] = s
            summary["totals"] = dict(totals)
            return s

        sim._patch(su_finalize, "analyze_pending", analyze)

    cfg["wired_hook"] = wired
    obs = session(w, cfg, prefix)
    obs.pending = summary
    obs.flat = {"many_missing": "inputs", "many_resources": "resources"}.get(spec["name"].split(":")[0])
    obs.targets = spec["cfg"].get("targets", ()), spec["cfg"].get("target_dirs", ())
    w.destroy()
    return obs


def analyse(obs):
    out = []
    if obs.rc is None or obs.graph_text is None:
        return out
    rc = obs.rc.value
    targets, tdirs = obs.targets
    attached = {s: st for s, st in obs.db_steps.items() if not st["detached"]}
    failed = [s for s, st in attached.items() if st["state"] == "FAILED"]
    required = refmodel.required_steps(obs, targets, tdirs)
    pending = [s for s in required if attached[s]["state"] == "PENDING"]
    # independent of the reports: a requested target that the graph holds as a static file
    # (present, missing or not yet confirmed) or as a volatile output is not a valid target
    invalid_target = any(
        t in obs.db_files and not obs.db_files[t][2]
        and obs.db_files[t][0] in ("MISSING", "UNCONFIRMED", "CONFIRMED", "VOLATILE") for t in targets)
    # FAILED bit
    exp_failed = bool(failed) or invalid_target
    # independent of what was reported: an attached glob pattern whose regex matches an attached
    # product at the end of the build
    import re as _re
    products = {p for s in attached for p in obs.db_outputs.get(s, [])
                if p in obs.db_files and not obs.db_files[p][2]}
    glob_error = any(_re.compile(rx).fullmatch(p) for s in attached for rx in obs.db_nglobs.get(s, [])
                     for p in products)
    if bool(rc & FAILED) != (exp_failed or glob_error):
        out.append(("failed-bit", f"FAILED bit is {bool(rc & FAILED)}, attached failed steps: {failed}, "
                    f"invalid target: {invalid_target}"))
    if invalid_target:
        return out
    # "zero only if ... nothing questionable was found": an ERROR line is a finding
    errors = [r[1] for r in obs.reports if r[0] == "ERROR"]
    if errors and rc == 0:
        out.append(("zero-despite-error", f"exit status 0 although an error was reported: {errors[0][:120]}"))
    # a drain requested by the harness itself (independent of the scheduler's own flag)
    if "drained" in getattr(obs, "flags", ()) and not rc & DRAINED:
        out.append(("drain-request-forgotten", f"a drain was requested during the session but the "
                    f"DRAINED bit is not set (rc={obs.rc_class})"))
    # DRAINED bit
    if bool(rc & DRAINED) != bool(obs.draining):
        out.append(("drained-bit", f"DRAINED bit is {bool(rc & DRAINED)}, scheduler draining: {obs.draining}"))
    # PENDING bit
    exp_pending = (not obs.draining) and bool(pending)
    if bool(rc & PENDING) != exp_pending:
        out.append(("pending-bit", f"PENDING bit is {bool(rc & PENDING)}, draining={obs.draining}, "
                    f"required steps still pending: {pending}"))
    # zero only if everything required succeeded
    if rc == 0:
        notdone = [s for s in required if attached[s]["state"] != "SUCCEEDED"]
        if notdone:
            out.append(("zero-but-not-done", f"return code 0 although {notdone} did not succeed"))
        missing_t = [t for t in targets if not any(t in outs for s, outs in obs.db_outputs.items() if s in attached)]
        if missing_t:
            out.append(("zero-but-target-missing", f"return code 0 although targets {missing_t} are not produced"))
    # summary
    summ = obs.pending.get("summary")
    if summ is not None and not obs.draining:
        totals = obs.pending.get("totals", {})
        if summ.ntotal != len(pending):
            out.append(("summary-total", f"summary counts {summ.ntotal} pending steps, reference {len(pending)}: {pending}"))
        if summ.ntotal > 0 and sum(totals.values()) + summ.cyclic.nblocked != summ.ntotal:
            out.append(("summary-partition", f"attributed {totals} + cyclic {summ.cyclic.nblocked} != {summ.ntotal}"))
        if summ.runnable.nblocked:
            out.append(("summary-runnable", f"{summ.runnable.nblocked} step(s) reported runnable at the end of a "
                        f"phase that was not draining, e.g. {summ.runnable.example}"))
        blocked_inputs = set()
        for s in pending:
            blocked_inputs.update(refmodel.unavailable_inputs(obs, s))
            if attached[s]["deferred"]:
                blocked_inputs.update(p for p, dyn in obs.db_inputs.get(s, []) if dyn)
        for row in summ.inputs:
            if row.path not in blocked_inputs:
                out.append(("summary-input", f"displayed input {row.path} blocks no pending step"))
        avail = {}
        for part in (obs.resources or "").split(","):
            if part:
                n, u = part.split(":")
                avail[n] = int(u)
        for row in summ.resources:
            if row.name in avail and avail[row.name] >= row.units_needed:
                out.append(("summary-resource", f"displayed resource {row.name} is sufficient"))
        # flat projects (every pending step has its own single cause): the rows shown plus the
        # "... and N more" line account for every cause, and the steps behind them for every step
        flat = getattr(obs, "flat", None)
        if flat == "inputs":
            if len(summ.inputs) + summ.ninputs_hidden != len(blocked_inputs):
                out.append(("summary-hidden-inputs", f"{len(summ.inputs)} rows + {summ.ninputs_hidden} more "
                            f"!= {len(blocked_inputs)} dead-end inputs"))
            if sum(r.nblocked for r in summ.inputs) + summ.ninputs_hidden_blocked != len(pending):
                out.append(("summary-hidden-steps", f"steps behind the rows and the 'more' line do not add up "
                            f"to {len(pending)} pending steps"))
        if flat == "resources":
            if len(summ.resources) + summ.nresources_hidden != len(pending):
                out.append(("summary-hidden-resources", f"{len(summ.resources)} rows + {summ.nresources_hidden} "
                            f"more != {len(pending)} unsatisfiable resources"))
            if sum(r.nblocked for r in summ.resources) + summ.nresources_hidden_blocked != len(pending):
                out.append(("summary-hidden-steps", f"steps behind the resource rows and the 'more' line do not "
                            f"add up to {len(pending)} pending steps"))
    elif summ is None and not obs.draining and pending:
        out.append(("summary-missing", f"pending steps {pending} but no summary was computed"))
    return out


def jobs(tier, seed):
    bound = 1 if tier == "quick" else 2
    out = []
    for entry in project_list(tier):
        name, proj, cfg, drain = entry[:4]
        spec = {"name": name, "proj": proj, "cfg": cfg, "drain": drain, "bound": bound,
                "first": entry[4] if len(entry) > 4 else None, "act": entry[5] if len(entry) > 5 else None}
        if tier == "quick":
            out.append({**spec, "root": [], "only_root": False})
        else:
            obs = _run(spec, [])
            for r in split_roots(obs.points, bound):
                out.append({**spec, **r})
    return out


def run_job(spec):
    acc = Acc()
    name = spec["name"]

    def run(prefix):
        obs = _run(spec, prefix)
        obs.resources = spec["cfg"].get("resources")
        return obs

    def visit(prefix, obs):
        acc.evaluations += 1
        acc.transitions += obs.nev
        acc.states.add(h8([obs.rc_class, obs.graph]))
        if obs.rc is not None and obs.rc.value != 0:
            acc.nontrivial.add(h8([name, obs.rc_class, obs.choices]))
        acc.outcomes.setdefault(h8([name, obs.rc_class]), 1)
        rep = {"check": "C19", "spec": spec, "prefix": obs.choices}
        if not obs.ok():
            acc.violation(f"C19|{name}|fault", {"project": name, "exec": describe(obs, 50)}, rep)
            return
        for kind, msg in analyse(obs):
            acc.violation(f"C19|{name}|{kind}", {"project": name, "kind": kind, "what": msg,
                                                  "rc": obs.rc_class, "exec": describe(obs, 50),
                                                  "states": {s: st["state"] for s, st in obs.db_steps.items()}}, rep)
        acc.sample({"project": name, "rc": obs.rc_class,
                    "warnings": [r[1] for r in obs.reports if r[0] in ("WARNING", "ERROR")][:4]})

    limit = 1 if spec.get("only_root") else None
    _, trunc = explore(run, spec["bound"], visit, root=spec["root"], limit=limit)
    if trunc and not spec.get("only_root"):
        acc.caps.append(name)
    acc.extra["bound"] = spec["bound"]
    return acc


def coverage_extra(total, tier):
    return {"bound": total.extra.get("bound")}


def replay(doc):
    import json

    print(json.dumps(doc.get("what"), indent=1, default=str)[:6000])
    return 0
