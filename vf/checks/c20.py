"""C20: a path means the same file to a step and to the director (FUNX + DIRX monitor)."""

import itertools
import os

from .. import projects
from ..dirx import fresh_world, session
from ..harness import script
from ..runner import Acc, h8, scratch_dir

LEVEL = "exploration"
RULE = (
    "all paths of up to 4 components over {. .. a b}, relative and absolute, with and without a "
    "leading ./ and a trailing /, crossed with every working directory of the calling step (HERE) "
    "and of the declared step (workdir) over {., a, a/b, ../x, absolute}; translate, "
    "translate_back and _keep_affixes are compared with os.path.realpath on a real tree; in "
    "addition real builds with sub-plans in nested and sibling working directories are run in the "
    "closed system and every path that reaches the director, and ROOT/HERE of every command, is "
    "resolved independently; the real amend(), static() and step() are called as a step in every "
    "HERE would, for every spelling of a file path (with ./, with .., leaving the root and coming "
    "back through its own name), and the payload bound for the director is resolved "
    "independently and must be the normalized root-relative path; non-trivial: a path with '..' or a working directory other than '.'"
)
ASSUMPTIONS = ["no symbolic links in the tree", "POSIX path semantics"]

COMPS = [".", "..", "a", "b"]


def paths(maxlen):
    out = []
    for n in range(1, maxlen + 1):
        for comps in itertools.product(COMPS, repeat=n):
            p = "/".join(comps)
            out.append(p)
    return out


def variants(p):
    yield p
    if not p.startswith("./"):
        yield "./" + p
    if not p.endswith("/"):
        yield p + "/"


def jobs(tier, seed):
    n = 3 if tier == "quick" else 4
    heres = [".", "a", "a/b", "b/a"]
    out = [{"part": "translate", "here": h, "n": n} for h in heres]
    out.append({"part": "builds"})
    out += [{"part": "api", "here": h, "n": n - 1} for h in heres]
    out.append({"part": "info"})
    return out


def real(base, *parts):
    return os.path.realpath(os.path.join(base, *parts))


def run_translate(spec, acc):
    from path import Path
    from stepup.core import api as su_api
    from stepup.core.path import get_affixes, translate, translate_back

    root = scratch_dir("c20")
    for d in ("a/b", "b/a", "x"):
        os.makedirs(os.path.join(root, d), exist_ok=True)
    outside = scratch_dir("c20out")
    here = spec["here"]
    saved_env = dict(os.environ)
    saved_cwd = os.getcwd()
    os.environ["STEPUP_ROOT"] = root
    os.environ["HERE"] = here
    os.chdir(os.path.join(root, here))
    # siblings of the root whose names extend the root's own name (proj-data next to proj)
    sib = f"../{os.path.basename(root)}-data"
    os.makedirs(os.path.join(root, sib, "a"), exist_ok=True)
    workdirs = [".", "a", "a/b", "..", "../x", "./a/", os.path.join(root, "b"), outside, sib, sib + "/a",
                f"../{os.path.basename(root)}"]
    try:
        for wd in workdirs:
            for base in paths(spec["n"]):
                for p in variants(base):
                    acc.evaluations += 1
                    if ".." in p or wd != "." or here != ".":
                        acc.nontrivial.add(h8([here, wd, p]))
                    caller_dir = os.path.join(root, here)
                    wd_abs = wd if os.path.isabs(wd) else os.path.join(caller_dir, wd)
                    want = real(wd_abs, p)
                    try:
                        t = translate(p, wd)
                    except Exception as exc:  # noqa: BLE001
                        acc.violation(f"C20|translate-raises|{here}|{wd}|{p}", {"error": repr(exc)}, None)
                        continue
                    got = real(root, t) if not os.path.isabs(t) else os.path.realpath(t)
                    if got != want:
                        acc.violation(f"C20|translate|{here}|{wd}|{p}",
                                      {"here": here, "workdir": wd, "path": p, "translated": str(t),
                                       "designates": got, "should_designate": want}, None)
                    if str(t) != os.path.normpath(str(t)):
                        acc.violation(f"C20|translate-not-normalized|{here}|{wd}|{p}",
                                      {"translated": str(t)}, None)
                    # translate_back of the translated path designates the same file from the workdir
                    acc.evaluations += 1
                    back = translate_back(t, wd)
                    got_back = os.path.realpath(back) if os.path.isabs(back) else real(wd_abs, back)
                    if got_back != want:
                        acc.violation(f"C20|translate_back|{here}|{wd}|{p}",
                                      {"here": here, "workdir": wd, "root_relative": str(t),
                                       "back": str(back), "designates": got_back, "should": want}, None)
                    # affixes survive _keep_affixes
                    acc.evaluations += 1
                    try:
                        kept = su_api._keep_affixes(p, translate)
                    except Exception as exc:  # noqa: BLE001
                        kept = None
                        if not (os.path.isabs(str(translate(p)))):
                            acc.count("keep_affixes_raised")
                    if kept is not None:
                        lead, trail = get_affixes(p)
                        klead, ktrail = get_affixes(kept)
                        if (lead, trail) != (klead, ktrail) and not str(kept).startswith(("/", "../")) \
                                and str(kept) not in ("./", "."):
                            acc.violation(f"C20|keep_affixes|{here}|{p}",
                                          {"path": p, "kept": str(kept), "affixes": (lead, trail),
                                           "kept_affixes": (klead, ktrail)}, None)
                    if len(acc.samples) < 3 and ".." in p:
                        acc.sample({"here": here, "workdir": wd, "path": p, "translated": str(t)})
        # translate leaves a normalized root-relative path unchanged (caller in the root)
        if here == ".":
            for base in paths(spec["n"]):
                q = os.path.normpath(base)
                if q.startswith("..") or q == ".":
                    continue
                acc.evaluations += 1
                if str(translate(q)) != q:
                    acc.violation(f"C20|translate-identity|{q}", {"path": q, "translated": str(translate(q))}, None)
    finally:
        os.chdir(saved_cwd)
        os.environ.clear()
        os.environ.update(saved_env)


class _Recorder:
    """Stands in for the RPC client of a step: records the payload of every call."""

    def __init__(self):
        self.calls = []

    @property
    def call(self):
        rec = self

        class Proxy:
            def __getattr__(self, name):
                def fn(*args, **kwargs):
                    rec.calls.append((name, args))
                    return True
                return fn
        return Proxy()


def run_api(spec, acc):
    """The real API functions amend(), step() and static(), called as a step in working
    directory HERE would, for every spelling of a file path; the payload that would reach the
    director is compared with an independent resolution of the path on a real tree."""
    from stepup.core import api as su_api

    top = scratch_dir("c20api")
    root = os.path.join(top, "proj")
    for d in ("a/b", "b/a", "a/a", "b/b"):
        os.makedirs(os.path.join(root, d), exist_ok=True)
    for dirpath, _dirnames, _filenames in list(os.walk(root)):
        with open(os.path.join(dirpath, "f"), "w") as fh:
            fh.write("f\n")
    here = spec["here"]
    caller_dir = os.path.join(root, here)
    saved_env = dict(os.environ)
    saved_cwd = os.getcwd()
    saved = (su_api.get_rpc_client, su_api._AMEND_HISTORY, su_api._HOLD_STATE)
    os.environ.update({"STEPUP_ROOT": root, "HERE": here, "ROOT": os.path.relpath(root, caller_dir),
                       "STEPUP_JOB_I": "1", "STEPUP_STEP_NEED": "PLAN"})
    os.environ.pop("STEPUP_DIRECTOR_SOCKET", None)
    os.chdir(caller_dir)
    # spellings that leave the root and come back through the root's own name
    dirs_ = ["", *(x + "/" for x in paths(spec["n"]))]
    up = os.path.relpath(top, caller_dir)
    dirs_ += [f"{up}/proj/", f"{up}/proj/a/", f"./{up}/proj/"]
    spellings = []
    for d in dirs_:
        spellings.append(d + "f")
        if not d.startswith("./"):
            spellings.append("./" + d + "f")

    def check(site, p, sent, base_dir):
        acc.evaluations += 1
        want = real(base_dir, p)
        inside = want.startswith(os.path.realpath(root) + os.sep)
        if ".." in p or here != "." or p.startswith("./"):
            acc.nontrivial.add(h8([site, here, p]))
        sent = str(sent)
        got = os.path.realpath(sent) if os.path.isabs(sent) else real(root, sent)
        if got != want:
            acc.violation(f"C20|api|{site}|{here}|{p}",
                          {"site": site, "here": here, "path": p, "sent": sent, "designates": got,
                           "should_designate": want}, None)
        elif inside and sent != os.path.relpath(want, os.path.realpath(root)):
            acc.violation(f"C20|api-not-normalized|{site}|{here}|{p}",
                          {"site": site, "here": here, "path": p, "sent": sent,
                           "normalized": os.path.relpath(want, os.path.realpath(root))}, None)

    try:
        for p in spellings:
            if not os.path.isfile(os.path.join(caller_dir, p)):
                continue
            for role in ("inp", "out", "vol"):
                rec = _Recorder()
                su_api.get_rpc_client = lambda path=None, rec=rec: rec
                su_api._AMEND_HISTORY = {"inp": set(), "env": set(), "out": set(), "vol": set()}
                su_api._HOLD_STATE = su_api._HoldState()
                try:
                    su_api.amend(**{role: [p]})
                except Exception as exc:  # noqa: BLE001
                    acc.violation(f"C20|api-raises|amend {role}|{here}|{p}", {"error": repr(exc)}, None)
                    continue
                calls = [c for c in rec.calls if c[0] == "amend_step"]
                if len(calls) != 1:
                    acc.violation(f"C20|api|amend {role}|no-call|{here}|{p}", {"calls": repr(rec.calls)}, None)
                    continue
                _job, inp, _env, out, vol = calls[0][1][:5]
                sent = list({"inp": inp, "out": out, "vol": vol}[role])
                if len(sent) != 1:
                    acc.violation(f"C20|api|amend {role}|count|{here}|{p}", {"sent": repr(sent)}, None)
                    continue
                check(f"amend {role}", p, sent[0], caller_dir)
            # static()
            rec = _Recorder()
            su_api.get_rpc_client = lambda path=None, rec=rec: rec
            try:
                su_api.static(p)
                calls = [c for c in rec.calls if c[0] == "declare_static"]
                files = list(calls[0][1][2]) if calls else []
                if len(files) == 1:
                    check("static", p, files[0], caller_dir)
                else:
                    acc.count("static_not_one_file")
            except Exception as exc:  # noqa: BLE001
                acc.count("static_raised")
                if len(acc.samples) < 3:
                    acc.sample({"static": p, "here": here, "raised": repr(exc)[:200]})
            # step() with a working directory: paths are relative to that directory
            for wd in (".", "a", "./a/", "..", "a/.."):
                wd_abs = os.path.join(caller_dir, wd)
                if not os.path.isfile(os.path.join(wd_abs, p)):
                    continue
                if not real(wd_abs).startswith(os.path.realpath(root)):
                    continue
                rec = _Recorder()
                su_api.get_rpc_client = lambda path=None, rec=rec: rec
                try:
                    su_api.step("cmd", inp=[p], workdir=wd)
                except Exception as exc:  # noqa: BLE001
                    acc.violation(f"C20|api-raises|step|{here}|{wd}|{p}", {"error": repr(exc)}, None)
                    continue
                calls = [c for c in rec.calls if c[0] == "define_step"]
                args = calls[0][1]
                inp_sent, wd_sent = list(args[2]), str(args[6])
                if len(inp_sent) == 1:
                    check(f"step inp wd={wd}", p, inp_sent[0], wd_abs)
                acc.evaluations += 1
                if real(root, wd_sent) != real(wd_abs):
                    acc.violation(f"C20|api|step workdir|{here}|{wd}",
                                  {"here": here, "workdir": wd, "sent": wd_sent}, None)
        # call() with an arguments file: the file that is written and announced as an output of
        # the calling step must be the file the new step gets as input and on its command line
        for wd in (".", "a", "./a/", "..", "a/..", "a/b"):
            wd_abs = os.path.join(caller_dir, wd)
            if not real(wd_abs).startswith(os.path.realpath(root)) or not os.path.isdir(wd_abs):
                continue
            for af in ("args.json", "./args.json", "b/../args.json"):
                rec = _Recorder()
                su_api.get_rpc_client = lambda path=None, rec=rec: rec
                su_api._AMEND_HISTORY = {"inp": set(), "env": set(), "out": set(), "vol": set()}
                su_api._HOLD_STATE = su_api._HoldState()
                with open(os.path.join(wd_abs, "s.py"), "w") as fh:
                    fh.write("#!/usr/bin/env python3\n")
                before = set(os.listdir(wd_abs)) if os.path.isdir(wd_abs) else set()
                try:
                    su_api.call("./s.py", "fn", args_file=af, workdir=wd, x=1)
                except Exception as exc:  # noqa: BLE001
                    acc.violation(f"C20|api-raises|call|{here}|{wd}|{af}", {"error": repr(exc)}, None)
                    continue
                acc.evaluations += 1
                if wd != "." or here != ".":
                    acc.nontrivial.add(h8(["call", here, wd, af]))
                amended = [str(x) for c in rec.calls if c[0] == "amend_step" for x in c[1][3]]
                defined = [c for c in rec.calls if c[0] == "define_step"]
                inps = [str(x) for x in defined[0][1][2]] if defined else []
                want = real(wd_abs, af)
                written = os.path.exists(want)
                ok = (len(amended) == 1 and amended[0] in inps and real(root, amended[0]) == want and written)
                if not ok:
                    acc.violation(f"C20|api|call args_file|{here}|{wd}",
                                  {"here": here, "workdir": wd, "args_file": af, "announced_as_output": amended,
                                   "inputs_of_the_new_step": inps, "file_the_new_step_will_read": want,
                                   "written_there": written}, None)
                for name in ("args.json",):
                    for d in (wd_abs, caller_dir):
                        try:
                            os.remove(os.path.join(d, name))
                        except OSError:
                            pass
        # glob(): the pattern and the matches travel together; the director records the matches
        # under the translated pattern and scans again with it at the next start
        from stepup.core.nglob import NamedGlob

        patterns = []
        for d in dirs_:
            for tail in ("*", "${*n}", "f"):
                patterns.append(d + tail)
                if not d.startswith("./"):
                    patterns.append("./" + d + tail)
        for pat in patterns:
            rec = _Recorder()
            su_api.get_rpc_client = lambda path=None, rec=rec: rec
            try:
                ng = su_api.glob(pat)
            except Exception as exc:  # noqa: BLE001
                acc.violation(f"C20|api-raises|glob|{here}|{pat}", {"error": repr(exc)}, None)
                continue
            calls = [c for c in rec.calls if c[0] == "register_glob"]
            _job, tr_pattern, subs, tr_paths = calls[0][1][:4]
            local = [str(x) for x in ng.files()]
            acc.evaluations += 1
            if ".." in pat or here != ".":
                acc.nontrivial.add(h8(["glob", here, pat]))
            want = sorted(real(caller_dir, x) for x in local)
            got = sorted(os.path.realpath(str(x)) if os.path.isabs(str(x)) else real(root, str(x)) for x in tr_paths)
            if want != got:
                acc.violation(f"C20|api|glob matches|{here}|{pat}",
                              {"here": here, "pattern": pat, "local_matches": local,
                               "sent": [str(x) for x in tr_paths]}, None)
                continue
            inside = all(w.startswith(os.path.realpath(root) + os.sep) for w in want)
            if not inside or not local:
                continue
            # what the director does with the payload
            acc.evaluations += 2
            try:
                dng = NamedGlob(str(tr_pattern), dict(subs))
                dng.extend([str(x) for x in tr_paths])
                kept = sorted(str(x) for x in dng.files())
                os.chdir(root)
                fresh = NamedGlob(str(tr_pattern), dict(subs))
                fresh.glob()
                rescan = sorted(str(x) for x in fresh.files())
            finally:
                os.chdir(caller_dir)
            sent = sorted(str(x) for x in tr_paths)
            # the director compares patterns and matches with node labels, which are normalized
            # root-relative paths: a leading ./ carries no meaning there (a trailing / does)
            normal = sorted(os.path.relpath(w, os.path.realpath(root)) + ("/" if x.endswith("/") else "")
                            for w, x in zip(want, sorted(local, key=lambda x: real(caller_dir, x)), strict=True))
            if sent != normal or str(tr_pattern).startswith("./"):
                acc.violation(f"C20|api-not-normalized|glob|{here}|{pat}",
                              {"here": here, "pattern": pat, "sent_pattern": str(tr_pattern), "sent": sent,
                               "normalized": normal}, None)
            elif kept != sent:
                acc.violation(f"C20|api|glob payload rejected by its own pattern|{here}|{pat}",
                              {"here": here, "pattern": pat, "sent_pattern": str(tr_pattern), "sent": sent,
                               "recorded_by_director": kept}, None)
            elif rescan != sent:
                acc.violation(f"C20|api|glob rescan differs|{here}|{pat}",
                              {"here": here, "pattern": pat, "sent_pattern": str(tr_pattern), "sent": sent,
                               "rescan_from_root": rescan}, None)
    finally:
        su_api.get_rpc_client, su_api._AMEND_HISTORY, su_api._HOLD_STATE = saved
        os.chdir(saved_cwd)
        os.environ.clear()
        os.environ.update(saved_env)


def run_info(spec, acc):
    """`get_info()`: the paths of the step information, recorded root-relative by the director,
    must designate the same files when the step resolves them from its working directory; every
    working directory (inside the root, nested, outside the root, a sibling whose name extends
    the root's) x every recorded path (inside and outside the root), for inp, out and vol."""
    from stepup.core import api as su_api
    from stepup.core.stepinfo import StepInfo

    top = scratch_dir("c20info")
    root = os.path.join(top, "proj")
    heres = [".", "a", "a/b", "b/a", "../ext", "../ext/deep", "../proj-data", "../proj-data/a"]
    recorded = ["f", "a/f", "a/b/f", "b/f", "b/a/f", "../ext/f", "../ext/deep/f", "../proj-data/f", "../f"]
    for d in heres + [os.path.dirname(p) or "." for p in recorded]:
        os.makedirs(os.path.join(root, d), exist_ok=True)
    saved_env = dict(os.environ)
    saved_cwd = os.getcwd()
    saved = su_api.get_rpc_client
    try:
        for here in heres:
            cwd = os.path.realpath(os.path.join(root, here))
            os.environ.update({"STEPUP_ROOT": root, "HERE": here, "ROOT": os.path.relpath(root, cwd),
                               "STEPUP_JOB_I": "1"})
            os.environ.pop("STEPUP_DIRECTOR_SOCKET", None)
            os.chdir(cwd)
            for path in recorded:
                for role in ("inp", "out", "vol"):
                    info = StepInfo("cmd", [path] if role == "inp" else [], [], [path] if role == "out" else [],
                                    [path] if role == "vol" else [], here)

                    class Client:
                        @property
                        def call(self, info=info):
                            class P:
                                def get_step_info(self, job_i):
                                    return info
                            return P()

                    su_api.get_rpc_client = lambda path=None: Client()
                    acc.evaluations += 1
                    if here != "." or ".." in path:
                        acc.nontrivial.add(h8(["info", here, path, role]))
                    try:
                        got = su_api.get_info()
                    except Exception as exc:  # noqa: BLE001
                        acc.violation(f"C20|get_info-raises|{here}|{path}", {"error": repr(exc)}, None)
                        continue
                    back = [str(x) for x in getattr(got, role)]
                    want = real(root, path)
                    ok = len(back) == 1 and (os.path.realpath(back[0]) if os.path.isabs(back[0])
                                             else real(cwd, back[0])) == want
                    if not ok:
                        acc.violation(f"C20|get_info|{here}|{path}",
                                      {"here": here, "recorded": path, "role": role, "handed_back": back,
                                       "should_designate": want}, None)
    finally:
        su_api.get_rpc_client = saved
        os.chdir(saved_cwd)
        os.environ.clear()
        os.environ.update(saved_env)


def build_projects():
    """Sub-plans in nested and sibling working directories, paths with '..' and './'."""
    out = []
    for subdir, stepwd, inp, outp in [
        ("sub", ".", "data/in.txt", "out/s.txt"),
        ("sub", "data", "in.txt", "../out/s.txt"),
        ("sub", "../sib", "../sub/data/in.txt", "o.txt"),
        ("sub/deep", "..", "data/in.txt", "./out/s.txt"),
        ("sub", "./data/", "./in.txt", "../../top.txt"),
    ]:
        prog_sub = [["static", os.path.relpath("sub/data/in.txt", subdir)],
                    ["step", f"tr S {inp} -- {outp}", {"inp": [inp], "out": [outp], "workdir": stepwd}]]
        files = {
            "plan.py": script([["static", f"{subdir}/plan.py"], ["plan", "./plan.py", {"workdir": subdir}]]),
            f"{subdir}/plan.py": script(prog_sub),
            "sub/data/in.txt": "in\n",
            "sib/": "",
        }
        out.append((f"{subdir}|{stepwd}|{inp}|{outp}", files, subdir, stepwd, inp, outp))
    return out


def outside_projects():
    """Steps whose working directory lies outside the project root (the project is `proj/` inside
    the scratch directory, the working directories are its siblings)."""
    out = []
    for stepwd, up in (("../side", "../proj"), ("../side/deep", "../../proj"), ("sub/../../side", "../proj"),
                       ("../proj-data", "../proj"), ("../proj-data/deep", "../../proj")):
        inp, outp = f"{up}/src.txt", f"{up}/out/o.txt"
        files = {
            "plan.py": script([["static", "src.txt"],
                               ["step", f"tr S {inp} -- {outp}", {"inp": [inp], "out": [outp], "workdir": stepwd}]]),
            "src.txt": "src\n", "sub/": "", "../side/deep/": "", "../proj-data/deep/": "",
        }
        out.append((f"outside|{stepwd}", files, ".", stepwd, inp, outp))
    return out


def run_builds(acc):
    from ..harness import World
    from ..runner import scratch_dir

    for name, files, subdir, stepwd, inp, outp in build_projects() + outside_projects():
        if name.startswith("outside"):
            w = World(os.path.join(scratch_dir("c20o"), "proj"))
            w.materialize(files)
        else:
            w = fresh_world(files, "c20b")
        root = w.root

        def on_start(sim, proc, root=root):
            env = proc.env
            cwd_abs = os.path.join(root, proc.cwd)
            if os.path.realpath(os.path.join(cwd_abs, env["ROOT"])) != os.path.realpath(root):
                sim.monitor.append(("ROOT", f"{proc.label}: ROOT={env['ROOT']} from {proc.cwd}"))
            if os.path.realpath(os.path.join(root, env["HERE"])) != os.path.realpath(cwd_abs):
                sim.monitor.append(("HERE", f"{proc.label}: HERE={env['HERE']} but cwd is {proc.cwd}"))
            if os.path.realpath(env["STEPUP_ROOT"]) != os.path.realpath(root):
                sim.monitor.append(("STEPUP_ROOT", f"{proc.label}: {env['STEPUP_ROOT']}"))

        obs = session(w, {"njob": 2, "on_start": on_start})
        acc.evaluations += 1
        acc.transitions += obs.nev
        acc.nontrivial.add(h8(name))
        for kind, msg in obs.monitor:
            acc.violation(f"C20|env|{kind}|{name}", {"project": name, "what": msg}, None)
        if not obs.ok() or obs.rc_class != "success":
            acc.violation(f"C20|build|{name}", {"project": name, "rc": obs.rc_class, "error": obs.error,
                                                "reports": [r[:2] for r in obs.reports if r[0] in ("FAIL", "ERROR")],
                                                "stderr": [p for p in obs.log if p[1] in ("apierr", "rpcfail")]}, None)
        else:
            # the step declared by the sub-plan: its stored paths designate the files the script named
            want_wd = os.path.relpath(os.path.realpath(os.path.join(root, subdir, stepwd)), os.path.realpath(root))
            want_inp = os.path.relpath(os.path.realpath(os.path.join(root, subdir, stepwd, inp)), os.path.realpath(root))
            want_out = os.path.relpath(os.path.realpath(os.path.join(root, subdir, stepwd, outp)), os.path.realpath(root))
            label = f"tr S {inp} -- {outp}" + ("" if want_wd == "." else f"  # wd={want_wd}")
            ins = [p for p, _ in obs.db_inputs.get(label, [])]
            outs = obs.db_outputs.get(label, [])
            if ins != [want_inp] or outs != [want_out] or want_out not in obs.fs:
                acc.violation(f"C20|stored-paths|{name}",
                              {"project": name, "expected_label": label, "expected_inp": want_inp,
                               "expected_out": want_out, "steps": sorted(obs.db_steps),
                               "stored_inp": ins, "stored_out": outs,
                               "out_exists": want_out in obs.fs}, None)
            acc.sample({"project": name, "stored_step": label, "inp": ins, "out": outs})
        w.destroy()


def run_job(spec):
    acc = Acc()
    if spec["part"] == "translate":
        run_translate(spec, acc)
    elif spec["part"] == "api":
        run_api(spec, acc)
    elif spec["part"] == "info":
        run_info(spec, acc)
    else:
        run_builds(acc)
    return acc


def replay(doc):
    import json

    print(json.dumps(doc.get("what"), indent=1, default=str)[:4000])
    return 0
