"""Conformance of the closed system with the real command line tool.

The same project (byte-identical files) is built (a) by the real `stepup build` CLI: real director
process, real unix-socket RPC, real launcher and real child processes that run the program through
the real `stepup.core.api`; and (b) by the closed system on its default schedule. The persistent
database of both (every table, ids replaced by labels, times stripped) and the file trees must be
equal. This binds the substituted seams (launcher, transport, reporter, clock, thread worker) to the
implementation they stand for; it is a replay of model traces against the real thing, not a
deciding step of any property."""

import os
import shutil
import sqlite3
import subprocess

from . import dirx
from .canon import canon_raw
from .harness import World

BIN = os.path.join(os.path.dirname(os.path.dirname(os.path.abspath(__file__))), "bin")


def _norm_raw(raw):
    raw = dict(raw)
    # drop measured durations (real time) from the step rows
    raw["step"] = [tuple(row[:8]) + tuple(row[9:]) for row in raw["step"]]
    return raw


def _env(extra):
    env = {k: v for k, v in os.environ.items() if not k.startswith("STEPUP_")}
    env["PATH"] = BIN + ":/venv/bin:" + env.get("PATH", "/usr/bin:/bin")
    if not os.environ.get("VERIF_KEEP_PYTHONPATH"):
        env.pop("PYTHONPATH", None)
    env["PYTHONDONTWRITEBYTECODE"] = "1"
    env.update(extra or {})
    return env


def real_build(root, njob=1, environ=None, extra_args=(), timeout=120):
    """Run the real CLI in `root`; return (returncode, raw tables, stdout)."""
    cp = subprocess.run(
        ["/venv/bin/stepup", "build", "-j", str(njob), "--no-progress", *extra_args],
        cwd=root, env=_env(environ), capture_output=True, text=True, timeout=timeout,
        stdin=subprocess.DEVNULL, check=False,
    )
    dbpath = os.path.join(root, ".stepup", "graph.db")
    raw = None
    if os.path.exists(dbpath):
        con = sqlite3.connect(f"file:{dbpath}?mode=ro", uri=True)
        try:
            raw = _norm_raw(canon_raw(con))
        finally:
            con.close()
    return cp.returncode, raw, cp.stdout + cp.stderr


def fs_of(root):
    out = {}
    for dirpath, dirnames, filenames in os.walk(root):
        dirnames[:] = [d for d in dirnames if d not in (".stepup", "__pycache__")]
        for fn in filenames:
            p = os.path.join(dirpath, fn)
            with open(p, "rb") as fh:
                out[os.path.relpath(p, root)] = fh.read()
    return out


def compare(builds, cfg=None, environs=None, tag="cf"):
    """`builds` is a list of {path: content|None} deltas (first = full project), each followed by a
    build. Returns a list of differences (empty = conforming) and the number of builds compared."""
    cfg = dict(cfg or {})
    environs = environs or [None] * len(builds)
    sim_world = dirx.fresh_world({}, tag + "s")
    real_world = dirx.fresh_world({}, tag + "r")
    diffs = []
    try:
        for k, (delta, environ) in enumerate(zip(builds, environs, strict=True)):
            for w in (sim_world, real_world):
                for path, content in delta.items():
                    if path.endswith("/"):
                        w.mkdir(path)
                    elif content is None:
                        w.remove(path)
                    else:
                        w.write(path, content)
            c = dict(cfg)
            if environ:
                c["environ"] = environ
            obs = dirx.session(sim_world, c, want_raw=True)
            rc, raw, text = real_build(real_world.root, njob=c.get("njob", 1), environ=environ)
            sim_raw = _norm_raw(obs.raw) if obs.raw else None
            if (rc == 0) != (obs.rc_class == "success"):
                diffs.append(f"build {k}: exit real={rc} sim={obs.rc_class}/{obs.rc}\n{text[-1500:]}")
            if raw is None or sim_raw is None:
                diffs.append(f"build {k}: missing database real={raw is None} sim={sim_raw is None}")
                continue
            for table in sorted(raw):
                a, b = sorted(map(repr, raw[table])), sorted(map(repr, sim_raw[table]))
                if a != b:
                    only_r = [x for x in a if x not in b][:4]
                    only_s = [x for x in b if x not in a][:4]
                    diffs.append(f"build {k}: table {table}: real-only={only_r} sim-only={only_s}")
            fr, fs = fs_of(real_world.root), fs_of(sim_world.root)
            if fr != fs:
                bad = sorted(p for p in set(fr) | set(fs) if fr.get(p) != fs.get(p))
                diffs.append(f"build {k}: file trees differ at {bad[:6]}")
    finally:
        sim_world.destroy()
        real_world.destroy()
    return diffs, len(builds)
