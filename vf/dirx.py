"""DIRX: run director sessions of a project under a chosen schedule and observe them."""

import traceback

from . import canon
from .harness import (
    Crash,
    Deadlock,
    HarnessError,
    Horizon,
    PrefixChooser,
    Sim,
    World,
    rc_class,
)
from .runner import h8, scratch_dir


class Obs:
    """Everything a check may want to know about one finished (or dead) session."""

    def __init__(self, sim, fault=None, want_raw=False):
        self.points = list(sim.points)
        self.choices = [c for _, c in sim.points]
        self.trace = list(sim.trace)
        self.nev = sim.nev
        self.rc = sim.result
        self.rc_class = rc_class(sim.result) if sim.result is not None else None
        self.error = None
        if sim.error is not None:
            self.error = "".join(traceback.format_exception(sim.error))[-4000:]
            self.error_type = type(sim.error).__name__
        self.fault = fault
        self.crashed = sim.crashed
        self.reports = list(sim.reports)
        self.log = list(sim.log)
        self.cmd_windows = list(sim.cmd_windows)
        self.exceptions = list(sim.exceptions)
        self.rpc_replies = list(sim.rpc_replies)
        self.commits = sim.commit_count
        self.monitor = list(sim.monitor)
        self.flags = set(sim.flags)
        self.counters = dict(sim.counters)
        self.procs = [
            {"label": p.label, "job_i": p.job_i, "reads": list(p.reads), "writes": list(p.writes),
             "rc": getattr(p, "returncode", None), "start": p.started_at,
             "announced": dict(p.announced)}
            for p in sim.procs
        ]
        self.unhandled = [str(c.get("message")) + " " + repr(c.get("exception")) for c in sim.loop.unhandled]
        self.graph_text = None
        self.raw = None
        self.draining = None
        if sim.db is not None and sim.db._con is not None and sim.handler is not None and not sim.crashed:
            try:
                self.graph_text = sim.graph_text()
                if want_raw:
                    self.raw = canon.canon_raw(sim.db._con)
                self.draining = sim.handler.scheduler.draining
                self._read_db(sim.db._con)
            except Exception as exc:  # noqa: BLE001
                self.graph_error = repr(exc)
        self.fs = sim.world.fs_state()

    def _read_db(self, con):
        from stepup.core.enums import FileState, StepState
        from stepup.core.hash import FileHash

        self.db_files = {}
        self.db_hashmeta = {}
        for label, det, state, hjs in con.execute(
            "SELECT label, detached, state, hash FROM node JOIN file ON file.node = node.i"
        ):
            fh = FileHash.from_json(hjs)
            if not fh.is_unknown:
                self.db_hashmeta[label] = (fh.mtime, fh.size, fh.inode, fh.mode)
            self.db_files[label] = (FileState(state).name, None if fh.is_unknown else fh.digest.hex(), bool(det))
        self.db_steps = {}
        for label, det, state, need, ineed, deferred, hh in con.execute(
            "SELECT label, detached, state, need, _implied_need, deferred, _has_hash "
            "FROM node JOIN step ON step.node = node.i"
        ):
            self.db_steps[label] = {"state": StepState(state).name, "detached": bool(det), "need": need,
                                    "implied": ineed, "deferred": bool(deferred), "has_hash": bool(hh)}
        self.db_inputs = {}
        for slabel, flabel, dyn in con.execute(
            "SELECT s.label, f.label, EXISTS(SELECT 1 FROM dynamic_dep x WHERE x.i = d.i) "
            "FROM dependency d JOIN node s ON s.i = d.sink JOIN node f ON f.i = d.source "
            "WHERE s.kind = 'step' AND f.kind = 'file'"
        ):
            self.db_inputs.setdefault(slabel, []).append((flabel, bool(dyn)))
        self.db_nglobs = {}
        for slabel, regex in con.execute(
            "SELECT s.label, nglob.regex FROM nglob JOIN node s ON s.i = nglob.node WHERE NOT s.detached"
        ):
            self.db_nglobs.setdefault(slabel, []).append(regex)
        self.db_creator = {}
        for label, kind, ckind, clabel in con.execute(
            "SELECT n.label, n.kind, c.kind, c.label FROM node n JOIN node c ON c.i = n.creator"
        ):
            self.db_creator[f"{kind}:{label}"] = f"{ckind}:{clabel}"
        self.db_outputs = {}
        for slabel, flabel in con.execute(
            "SELECT s.label, f.label FROM dependency d JOIN node s ON s.i = d.source "
            "JOIN node f ON f.i = d.sink WHERE s.kind = 'step' AND f.kind = 'file'"
        ):
            self.db_outputs.setdefault(slabel, []).append(flabel)

    @property
    def started(self):
        return [rec[2] for rec in self.log if rec[1] == "START"]

    @property
    def graph(self):
        return canon.canon_graph(self.graph_text) if self.graph_text is not None else None

    @property
    def attached(self):
        return canon.attached_graph(self.graph_text) if self.graph_text is not None else None

    def report_tags(self, tag):
        return [r[1] for r in self.reports if r[0] == tag]

    def outcome_key(self):
        return h8([self.rc_class, self.graph, sorted(self.fs.items()), self.fault, self.error is not None])

    def ok(self):
        return self.fault is None and self.error is None


def session(world, cfg, prefix=(), want_raw=False, chooser=None):
    """Run one director session in `world` to its end under `prefix` then defaults."""
    sim = Sim(world, **cfg)
    sim.start()
    fault = None
    try:
        try:
            sim.run(chooser or PrefixChooser(prefix))
        except Deadlock as exc:
            fault = ("deadlock", str(exc), [g.label() for g in sim.gates][:5])
        except Horizon as exc:
            fault = ("horizon", str(exc))
        obs = Obs(sim, fault, want_raw=want_raw)
    finally:
        sim.close()
    return obs


def fresh_world(files, tag="w"):
    w = World(scratch_dir(tag))
    w.materialize(files)
    return w


def describe(obs, limit=40):
    """Short JSON-able description of an execution for replay files and samples."""
    return {
        "choices": obs.choices,
        "rc": obs.rc_class,
        "fault": obs.fault,
        "error": obs.error[-600:] if obs.error else None,
        "trace": obs.trace[:limit],
        "started": obs.started,
    }
