"""Deviation-bounded stateless exploration of choice sequences (iterative context bounding).

`run(prefix)` must replay `prefix` exactly (an out-of-range choice is a hard error inside the
harness), take choice 0 at every later point and return an object with `.points`, the list of
`(n_enabled, chosen)` of every choice point of that execution.  A choice other than 0 is a
deviation; executions with at most `bound` deviations are enumerated, each exactly once.
"""


def cost(prefix):
    return sum(1 for c in prefix if c != 0)


def children(points, prefix_len, prefix_cost, bound):
    """Prefixes of the executions that deviate once more, after position prefix_len."""
    if prefix_cost + 1 > bound:
        return
    choices = [c for _, c in points]
    for i in range(prefix_len, len(points)):
        n = points[i][0]
        base = choices[:i]
        for alt in range(1, n):
            yield [*base, alt]


def explore(run, bound, visit, root=(), limit=None):
    """Depth-first enumeration below `root`. Returns (executions, truncated)."""
    stack = [(list(root), None)]
    nexec = 0
    while stack:
        prefix, expected = stack.pop()
        x = run(prefix)
        nexec += 1
        # determinism self-check: while replaying the parent's prefix every choice point must
        # offer exactly as many events as it did in the parent execution, and the first execution
        # of every exploration is run twice and must produce the same event trace
        got = [n for n, _ in x.points[: len(prefix)]]
        if expected is not None and got[: len(expected)] != expected:
            raise RuntimeError(f"nondeterminism leak: replay of {prefix} saw {got}, parent saw {expected}")
        if nexec == 1 and getattr(x, "trace", None) is not None:
            y = run(prefix)
            if y.points != x.points or y.trace != x.trace:
                raise RuntimeError(f"nondeterminism leak: two runs of {prefix} differ")
        visit(prefix, x)
        if limit is not None and nexec >= limit:
            return nexec, len(stack) > 0
        kids = list(children(x.points, len(prefix), cost(prefix), bound))
        counts = [n for n, _ in x.points]
        stack.extend((kid, counts[: len(kid)]) for kid in reversed(kids))
    return nexec, False


def split_roots(points, bound):
    """Roots for parallel exploration: the root execution alone, then every depth-1 subtree."""
    roots = [{"root": [], "only_root": True}]
    for kid in children(points, 0, 0, bound):
        roots.append({"root": kid, "only_root": False})
    return roots
