"""The closed system: the real director on a hand-stepped loop, with owned nondeterminism.

Real code inside: `director.serve`, `_wire_director`, `Workflow`, `Scheduler`, `Executor`,
`Builder`, `HashQueue`, `DirectorHandler`, `Watcher`, `startup`, `finalize`, `pending`, SQLite.
Substituted (module attribute rebinding only, see DESIGN.md 2.1): `executor.launch_command`,
`ThreadWorker.run_in_thread`, the reporter client, `scheduler.time`, the RPC socket server,
`DBSession.reclaim_loop`, `watcher.Inotify`.
"""

import asyncio
import contextlib
import hashlib
import json
import logging
import os
import shlex
import shutil
import stat
import sys
import warnings

from path import Path

from stepup.core import api as su_api
from stepup.core import director as su_director
from stepup.core import executor as su_executor
from stepup.core import rpc as su_rpc
from stepup.core import run as su_run
from stepup.core import scheduler as su_scheduler
from stepup.core import sqlite3 as su_sqlite3
from stepup.core.director import ServeConfig
from stepup.core.enums import ReturnCode
from stepup.core.outcome import ChildOutcome
from stepup.core.rpc import RemoteFailure, RPCCall
from stepup.core.sqlite3 import DBSession

from .vloop import VLoop

SHEBANG = "#!/usr/bin/env python3"
FS_EPOCH = 1_500_000_000.0

logging.getLogger("stepup.core.rpc").setLevel(logging.CRITICAL)
logging.getLogger("asyncio").setLevel(logging.CRITICAL)
logging.getLogger("stepup.core.builder").setLevel(logging.ERROR)
warnings.filterwarnings("ignore", category=RuntimeWarning)
# Coroutines of a killed director are dropped without being run to completion; their cleanup
# clauses then complain about the closed loop when they are garbage-collected.
sys.unraisablehook = lambda unraisable: None


class Deadlock(Exception):
    pass


class Horizon(Exception):
    pass


class HarnessError(Exception):
    """The harness itself is wrong (nondeterminism leak, out-of-range replay choice)."""


class Crash(SystemExit):
    """Raised at a snapshot point to kill the director there.

    A SystemExit subclass: asyncio lets it escape from the running callback, so nothing after
    the crash point executes except `finally` clauses, none of which touches disk.
    """


# ------------------------------------------------------------------------------------------
# World: the project directory and its logical clock, persistent over director sessions
# ------------------------------------------------------------------------------------------


def script(prog, v=1):
    """Return the content of an executable step script running `prog` (a list of actions).

    The file is a real Python script: run by a real `stepup build` it executes the same program
    through the real `stepup.core.api` (see vf/realrt.py); the simulated launcher reads the program
    from the comment on its second line. Both worlds therefore hold byte-identical files."""
    return (SHEBANG + "\n# " + json.dumps({"v": v, "prog": prog}, sort_keys=True) + "\n"
            + "import sys; sys.path.insert(0, '/verif'); from vf.realrt import main; main(sys.argv[0])\n")


class World:
    def __init__(self, root):
        self.root = os.path.abspath(root)
        self.clock = FS_EPOCH
        self.writes = []  # (seq, relpath, digest or None)
        self.seq = 0
        os.makedirs(os.path.join(self.root, ".stepup"), exist_ok=True)

    def abspath(self, rel):
        return os.path.normpath(os.path.join(self.root, rel))

    def tick(self):
        self.clock += 1.0
        return self.clock

    def write(self, rel, content, mode=None, who="user"):
        ap = self.abspath(rel)
        os.makedirs(os.path.dirname(ap), exist_ok=True)
        data = content.encode() if isinstance(content, str) else content
        if os.path.isdir(ap):
            raise IsADirectoryError(ap)
        with open(ap, "wb") as fh:
            fh.write(data)
        if mode is None:
            mode = 0o755 if data.startswith(SHEBANG.encode()) else 0o644
        os.chmod(ap, mode)
        t = self.tick()
        os.utime(ap, (t, t))
        self.seq += 1
        self.writes.append((self.seq, os.path.relpath(ap, self.root), hashlib.sha256(data).hexdigest(), who))

    def swap(self, rel, who="user"):
        """Replace a file by another one of the same size, mode and modification time but with
        other content and another inode (what `cp -p new tmp; mv tmp file` leaves behind)."""
        ap = self.abspath(rel)
        st = os.stat(ap)
        with open(ap, "rb") as fh:
            data = fh.read()
        new = data.swapcase()
        if new == data:
            new = bytes([data[0] ^ 1]) + data[1:] if data else b""
        tmp = ap + ".swap.tmp"
        with open(tmp, "wb") as fh:
            fh.write(new)
        os.chmod(tmp, st.st_mode & 0o7777)
        os.utime(tmp, ns=(st.st_atime_ns, st.st_mtime_ns))
        os.rename(tmp, ap)
        self.seq += 1
        self.writes.append((self.seq, os.path.relpath(ap, self.root), hashlib.sha256(new).hexdigest(), who))
        return new

    def touch(self, rel):
        ap = self.abspath(rel)
        t = self.tick()
        os.utime(ap, (t, t))

    def chmod(self, rel, mode):
        os.chmod(self.abspath(rel), mode)

    def remove(self, rel, who="user"):
        ap = self.abspath(rel)
        if os.path.isdir(ap) and not os.path.islink(ap):
            shutil.rmtree(ap)
        elif os.path.lexists(ap):
            os.remove(ap)
        self.seq += 1
        self.writes.append((self.seq, os.path.relpath(ap, self.root), None, who))

    def mkdir(self, rel):
        os.makedirs(self.abspath(rel), exist_ok=True)

    def rename(self, src, dst, who="user"):
        os.makedirs(os.path.dirname(self.abspath(dst)), exist_ok=True)
        os.rename(self.abspath(src), self.abspath(dst))
        self.seq += 1
        self.writes.append((self.seq, src, None, who))

    def read(self, rel):
        with open(self.abspath(rel), "rb") as fh:
            return fh.read()

    def exists(self, rel):
        return os.path.lexists(self.abspath(rel))

    def materialize(self, files):
        for rel in sorted(files):
            content = files[rel]
            if content is None:
                continue
            if rel.endswith("/"):
                self.mkdir(rel)
            else:
                self.write(rel, content)

    def fs_state(self, with_meta=False):
        """Return {relpath: (sha256, mode)} for everything outside .stepup; dirs as 'dir'."""
        out = {}
        for dirpath, dirnames, filenames in os.walk(self.root):
            rel = os.path.relpath(dirpath, self.root)
            if rel == ".":
                rel = ""
            if rel == ".stepup" or rel.startswith(".stepup/"):
                dirnames[:] = []
                continue
            if rel == "":
                dirnames[:] = [d for d in dirnames if d != ".stepup"]
            dirnames.sort()
            if rel:
                out[rel + "/"] = "dir"
            for fn in sorted(filenames):
                ap = os.path.join(dirpath, fn)
                st = os.lstat(ap)
                with open(ap, "rb") as fh:
                    dg = hashlib.sha256(fh.read()).hexdigest()[:16]
                key = os.path.join(rel, fn) if rel else fn
                if with_meta:
                    out[key] = (dg, stat.S_IMODE(st.st_mode), st.st_mtime, st.st_ino)
                else:
                    out[key] = (dg, stat.S_IMODE(st.st_mode))
        return out

    def destroy(self):
        shutil.rmtree(self.root, ignore_errors=True)


# ------------------------------------------------------------------------------------------
# Gates
# ------------------------------------------------------------------------------------------


class Gate:
    __slots__ = ("kind", "key", "fut", "seq", "payload", "thread")

    def __init__(self, kind, key, fut, seq, payload=None, thread=None):
        self.kind = kind
        self.key = key
        self.fut = fut
        self.seq = seq
        self.payload = payload
        self.thread = thread

    def label(self):
        return f"{self.kind}:{self.key}"


class EnvEvent:
    """An environment event offered by the driver at a quiescent configuration."""

    __slots__ = ("key", "fn")
    kind = "env"

    def __init__(self, key, fn):
        self.key = key
        self.fn = fn

    def label(self):
        return f"env:{self.key}"


# ------------------------------------------------------------------------------------------
# Reporter substitute
# ------------------------------------------------------------------------------------------


class FakeReporter:
    """Records reports; every awaited call is a suspension point of unknown length."""

    def __init__(self, sim):
        self.sim = sim

    async def _suspend(self, key):
        mode = self.sim.cfg.get("reporter", "gate")
        if mode == "gate":
            await self.sim.gate("rep", key)
        elif mode == "yield":
            await asyncio.sleep(0)

    async def __call__(self, tag, description, pages=None):
        self.sim.reports.append((tag, str(description), pages or []))
        self.sim.logev("report", tag, str(description))
        await self._suspend(f"{tag} {str(description)[:60]}")

    async def set_njob(self, njob):
        await self._suspend("set_njob")

    def job_started(self, job_i, letter, description):
        pass

    def job_stopped(self, job_i):
        pass

    async def update_progress(self, ndone, ntotal):
        await self._suspend("progress")

    async def warn_about_logs(self):
        await self._suspend("warn_about_logs")

    async def stop_reporting(self):
        pass

    async def close(self):
        pass


# ------------------------------------------------------------------------------------------
# Simulated step processes
# ------------------------------------------------------------------------------------------


class ScriptExit(Exception):
    def __init__(self, code, stderr=""):
        super().__init__(code, stderr)
        self.code = code
        self.stderr = stderr


class _NeedReply(Exception):
    pass


class _CallProxy:
    def __init__(self, client):
        self._client = client

    def __getattr__(self, name):
        def _call(*args, _rpc_timeout=None, **kwargs):
            return self._client(name, *args, **kwargs)

        return _call


class CapClient:
    """Stands in for the synchronous RPC client of a step: records calls, replays replies."""

    def __init__(self, replies=()):
        self.calls = []
        self.replies = list(replies)

    @property
    def call(self):
        return _CallProxy(self)

    def __call__(self, name, *args, **kwargs):
        self.calls.append(RPCCall(name, args, kwargs))
        idx = len(self.calls) - 1
        if idx < len(self.replies):
            reply = self.replies[idx]
            if isinstance(reply, RemoteFailure):
                raise reply.to_exception()
            return reply
        if name in ("amend_step", "get_step_info"):
            raise _NeedReply()
        return None


class Proc:
    def __init__(self, sim, command, cwd, env, shell):
        self.sim = sim
        self.command = command
        self.cwd = str(cwd)
        self.env = env
        self.shell = shell
        self.job_i = int(env["STEPUP_JOB_I"])
        self.label = command if self.cwd in (".", "") else f"{command}  # wd={self.cwd}"
        self.amend_history = {"inp": set(), "env": set(), "out": set(), "vol": set()}
        self.hold_state = su_api._HoldState()
        self.reads = []
        self.writes = []
        self.held_defs = set()
        self.announced = {}  # input path -> event index at which the director knew about it
        self.nact = 0
        self.started_at = sim.nev
        self.rpc_log = []
        self.pyscript = False
        self.stash = []

    def rel(self, path):
        """Translate a path relative to the process's cwd into a root-relative path."""
        if os.path.isabs(path):
            return path
        return os.path.normpath(os.path.join(self.cwd, path))


NEED_NAMES = {"OPTIONAL": 31, "DEFAULT": 32, "PLAN": 34}


class Sim:
    """One director session in a project directory (world)."""

    current = None

    def __init__(self, world, **cfg):
        self.world = world
        self.cfg = cfg
        self.loop = None
        self.gates = []
        self.gate_seq = 0
        self.last_thread = None
        self.thread_ids = {}
        self.task_parent = {}
        self.nev = 0
        self.log = []
        self.reports = []
        self.procs = []
        self.running = {}
        self.handler = None
        self.db = None
        self.main = None
        self.result = None
        self.error = None
        self.crashed = False
        self.trace = []  # labels of fired events
        self.points = []  # (n_enabled, chosen)
        self.clock_ns = 0
        self.clock_stall = 0
        self.commit_count = 0
        self.snap_count = 0
        self.snapshot_hook = cfg.get("snapshot_hook")
        self.commit_hook = cfg.get("commit_hook")
        self.precommit_hook = cfg.get("precommit_hook")
        self.env_events = cfg.get("env_events")
        self.horizon = cfg.get("horizon", 3000)
        self._patches = []
        self._saved_environ = None
        self._saved_cwd = None
        self.exceptions = []  # non-usage exceptions seen in RPC replies or tasks
        self.rpc_replies = []
        self.cmd_windows = []  # (label, job_i, start_ev, end_ev, returncode)
        self.inotifies = []
        self.ino_waiters = []
        self.monitor = []  # violations found by monitors while the session runs
        self.flags = set()
        self.counters = {}

    # -- logging -----------------------------------------------------------------------------
    def logev(self, *rec):
        self.log.append((self.nev, *rec))

    def ext_write(self, rel, content):
        """An external (user) write while the director lives."""
        self.world.write(rel, content, who="user")
        self.logev("write", "<user>", rel, hashlib.sha256(content.encode()).hexdigest())

    def ext_swap(self, rel):
        """An external replacement that keeps size, mode and modification time."""
        new = self.world.swap(rel, who="user")
        self.logev("write", "<user>", rel, hashlib.sha256(new).hexdigest())

    def ext_remove(self, rel):
        self.world.remove(rel, who="user")
        self.logev("write", "<user>", rel, None)

    # -- gates -------------------------------------------------------------------------------
    def _thread_id(self, task):
        """Logical thread of a task: request handler tasks belong to the requesting step."""
        seen = 0
        while task in self.task_parent and seen < 50:
            task = self.task_parent[task]
            seen += 1
        tid = self.thread_ids.get(task)
        if tid is None:
            tid = self.thread_ids[task] = len(self.thread_ids) + 1
        return tid

    async def gate(self, kind, key, payload=None):
        fut = self.loop.create_future()
        self.gate_seq += 1
        g = Gate(kind, key, fut, self.gate_seq, payload, self._thread_id(asyncio.current_task()))
        self.gates.append(g)
        try:
            return await fut
        finally:
            if g in self.gates:
                self.gates.remove(g)

    def enabled(self):
        # Default (choice 0): keep running the thread that ran last, like a non-preemptive
        # scheduler; otherwise reporter replies first, then the oldest gate.
        gs = [g for g in self.gates if not g.fut.done()]
        last = self.last_thread
        policy = self.cfg.get("policy", "thread")
        if policy == "thread":
            gs.sort(key=lambda g: (g.kind == "probe", 0 if g.thread == last else 1, 0 if g.kind == "rep" else 1, g.seq))
        elif policy == "fifo":
            # oldest gate first (reporter replies before anything else): every runnable thread
            # advances in turn, the most overlapped base schedule
            gs.sort(key=lambda g: (g.kind == "probe", 0 if g.kind == "rep" else 1, g.seq))
        elif policy == "slowrep":
            # a stalled terminal: reporter replies only when nothing else can happen
            gs.sort(key=lambda g: (g.kind == "probe", 1 if g.kind == "rep" else 0, g.seq))
        elif policy == "lifo":
            gs.sort(key=lambda g: (g.kind == "probe", 0 if g.kind == "rep" else 1, -g.seq))
        else:
            raise HarnessError(f"unknown policy {policy}")
        evs = list(gs)
        if self.env_events is not None:
            if self.cfg.get("env_first"):
                # an impatient user: what the environment may do now comes first (choice 0)
                evs = list(self.env_events(self)) + evs
            else:
                evs.extend(self.env_events(self))
        return evs

    def fire(self, ev):
        self.nev += 1
        self.trace.append(ev.label())
        if isinstance(ev, Gate):
            if ev in self.gates:
                self.gates.remove(ev)
            self.last_thread = ev.thread
            ev.fut.set_result(None)
        else:
            ev.fn(self)

    # -- patching ----------------------------------------------------------------------------
    def _patch(self, obj, name, value):
        self._patches.append((obj, name, getattr(obj, name)))
        setattr(obj, name, value)

    def _install(self):
        if Sim.current is not None:
            raise HarnessError("another Sim is active")
        Sim.current = self
        sim = self
        self._saved_cwd = os.getcwd()
        os.chdir(self.world.root)
        self._saved_environ = dict(os.environ)
        for k in list(os.environ):
            if k.startswith(("STEPUP_", "VERIF_X", "SOURCE_DATE_EPOCH")) or k in ("HERE", "ROOT"):
                del os.environ[k]
        os.environ.update(self.cfg.get("environ", {}))
        if self.cfg.get("debug", True):
            os.environ["STEPUP_DEBUG"] = "1"
        self.loop = VLoop()
        self.loop.install()

        self._patch(su_executor, "launch_command", self._launch_command)

        async def run_in_thread(worker):
            await sim.gate("hash", sim._describe_work(worker.work))
            return worker.work(worker._cancel_event)

        self._patch(su_run.ThreadWorker, "run_in_thread", run_in_thread)

        class _Clock:
            @staticmethod
            def monotonic_ns():
                fn = sim.cfg.get("clock_fn")
                if fn is not None:
                    return fn(sim)
                if sim.clock_stall > 0:
                    sim.clock_stall -= 1
                else:
                    sim.clock_ns += 1
                return sim.clock_ns

        self._patch(su_scheduler, "time", _Clock)

        class _NoServer:
            def __init__(self, handler, path):
                pass

            async def serve(self, exit_event):
                await exit_event.wait()

        self._patch(su_director, "SocketRPCServer", _NoServer)

        async def reclaim_loop(db, stop_event, *a, **k):
            await stop_event.wait()

        self._patch(DBSession, "reclaim_loop", reclaim_loop)

        orig_wire = su_director._wire_director

        async def wire(**kw):
            h = await orig_wire(**kw)
            sim.handler = h
            hook = sim.cfg.get("wired_hook")
            if hook is not None:
                hook(sim, h)
            return h

        self._patch(su_director, "_wire_director", wire)

        orig_pop = su_scheduler.Scheduler.pop_next_job

        async def pop_next_job(sched):
            job = await orig_pop(sched)
            if job is not None:
                sim.logev("DISPATCH", job.step.label, job.prefix)
            return job

        self._patch(su_scheduler.Scheduler, "pop_next_job", pop_next_job)

        orig_aexit = DBSession.__aexit__

        async def aexit(db, exc_type, exc, tb):
            if exc is None and sim.precommit_hook is not None and db is sim.db:
                sim.precommit_hook(sim, db)
            await orig_aexit(db, exc_type, exc, tb)
            if exc is None and db is sim.db:
                sim.commit_count += 1
                if sim.commit_hook is not None:
                    sim.commit_hook(sim, db)
                sim.snap("commit")

        self._patch(DBSession, "__aexit__", aexit)

        # the schema is written in autocommit mode, outside any transaction: a crash point of
        # its own (tables exist, nothing else does)
        orig_apply_schema = DBSession.apply_schema

        async def apply_schema(db, *args, **kwargs):
            fresh = await orig_apply_schema(db, *args, **kwargs)
            if fresh and db is sim.db:
                sim.snap("schema")
            return fresh

        self._patch(DBSession, "apply_schema", apply_schema)

        from stepup.core import finalize as su_finalize

        orig_try_remove = su_finalize._try_remove

        def try_remove(remove):
            ok = orig_try_remove(remove)
            if ok:
                sim.logev("REMOVED", str(getattr(remove, "__self__", "?")))
                sim.snap("remove")
            return ok

        self._patch(su_finalize, "_try_remove", try_remove)

        if self.cfg.get("do_watch"):
            from stepup.core import watcher as su_watcher

            self._patch(su_watcher, "Inotify", make_gated_inotify(self))
        for obj, name, value in self.cfg.get("extra_patches", ()):
            self._patch(obj, name, value)
        for factory in self.cfg.get("monitors", ()):
            for obj, name, value in factory(self):
                self._patch(obj, name, value)

    def _uninstall(self):
        for obj, name, value in reversed(self._patches):
            setattr(obj, name, value)
        self._patches = []
        if self.loop is not None:
            self.loop.uninstall()
        if self._saved_environ is not None:
            os.environ.clear()
            os.environ.update(self._saved_environ)
        if self._saved_cwd is not None:
            os.chdir(self._saved_cwd)
        Sim.current = None

    @staticmethod
    def _describe_work(work):
        func = getattr(work, "func", work)
        name = getattr(func, "__name__", "work")
        args = getattr(work, "args", ())
        parts = []
        for a in args:
            if isinstance(a, dict):
                parts.append(",".join(sorted(a)))
            elif isinstance(a, (str, os.PathLike)):
                parts.append(str(a))
        return f"{name}({';'.join(parts)})"

    def snap(self, tag):
        if self.crashed:
            return
        self.snap_count += 1
        if self.snapshot_hook is not None and self.snapshot_hook(self, tag):
            self.crashed = True
            self.crash_tag = (self.snap_count, tag)
            raise Crash()

    # -- session -----------------------------------------------------------------------------
    def serve_config(self):
        c = self.cfg
        return ServeConfig(
            njob=c.get("njob", 1),
            do_clean=c.get("do_clean", True),
            use_duration=False,
            explain_rerun=c.get("explain_rerun", False),
            keep_going=c.get("keep_going", False),
            fix_epoch=True,
            do_watch=c.get("do_watch", False),
            available_resources=c.get("resources"),
            defer_cap=c.get("defer_cap", 100),
            targets=[Path(t) for t in c.get("targets", ())],
            target_dirs=[Path(t) for t in c.get("target_dirs", ())],
        )

    async def _main(self):
        self.reporter = FakeReporter(self)
        res = await su_director.serve(
            self.serve_config(),
            director_socket_path=Path(self.world.root) / ".stepup" / "sock",
            reporter=self.reporter,
            db=self.db,
            mp_ctx=None,
            handle_signals=False,
        )
        return res.returncode

    def start(self):
        self._install()
        try:
            self.db = DBSession()
            self.db._con = su_sqlite3.connect(su_director.GRAPH_DB)
            self.main = self.loop.create_task(self._main(), name="vf-main")
        except BaseException:
            self._uninstall()
            raise

    def quiesce(self):
        """Run until quiescent. Returns True when the session ended."""
        try:
            self.loop.run_ready()
            while self._poke_inotify():
                self.loop.run_ready()
        except Crash:
            self.crashed = True
            return True
        if self.crashed:
            return True
        return self.main.done()

    def _poke_inotify(self):
        """Hand kernel events that became available to the tasks blocked in Inotify.get()."""
        woke = False
        for ino, fut in list(self.ino_waiters):
            if fut.done():
                self.ino_waiters.remove((ino, fut))
                continue
            ev = ino.sync_get()
            if ev is not None:
                ino._vbuf.append(ev)
                self.ino_waiters.remove((ino, fut))
                fut.set_result(None)
                woke = True
        return woke

    def inotify_idle(self):
        """No kernel event is waiting to be delivered or processed."""
        if any(g.kind == "ino" and not g.fut.done() for g in self.gates):
            return False
        for ino in self.inotifies:
            if ino._vbuf:
                return False
            ev = ino.sync_get()
            if ev is not None:
                ino._vbuf.append(ev)
                return False
        return True

    def run(self, chooser):
        """Drive the session to its end. `chooser(sim, enabled) -> index`."""
        try:
            while True:
                if self.quiesce():
                    break
                if self.nev > self.horizon:
                    raise Horizon(f"more than {self.horizon} events")
                enabled = self.enabled()
                if not enabled:
                    if self.loop.fire_next_timer():
                        continue
                    raise Deadlock("no enabled event, session not finished")
                idx = chooser(self, enabled)
                if idx is None:
                    # the chooser asks to abandon (crash) here
                    self.crashed = True
                    break
                if not 0 <= idx < len(enabled):
                    raise HarnessError(f"choice {idx} out of range {len(enabled)} at event {self.nev}")
                self.points.append((len(enabled), idx))
                try:
                    self.fire(enabled[idx])
                except Crash:
                    self.crashed = True
                    break
            if not self.crashed:
                exc = self.main.exception() if not self.main.cancelled() else None
                if exc is not None:
                    self.error = exc
                else:
                    self.result = self.main.result()
        finally:
            pass
        return self

    def with_db(self, fn):
        """Call `fn()` with synchronous access to the database, rolled back afterwards."""
        db = self.db
        if db._held is not None:
            raise HarnessError("database is held at a quiescent point")
        con = db._con
        db._held = su_sqlite3._Held(asyncio.current_task(), con, True)
        con.execute("BEGIN")
        try:
            return fn()
        finally:
            con.rollback()
            db._held = None

    def graph_text(self):
        return self.with_db(lambda: self.handler.workflow.format_str())

    def close(self):
        """End the session: like process exit (or kill -9 when the session did not finish)."""
        try:
            if self.db is not None and self.db._con is not None:
                with contextlib.suppress(Exception):
                    if self.db._con.in_transaction:
                        self.db._con.rollback()
                self.db._con.close()
                self.db._con = None
            for ino in self.inotifies:
                with contextlib.suppress(Exception):
                    ino.close()
            # drop pending tasks without running them
            if self.loop is not None:
                for task in asyncio.all_tasks(self.loop):
                    task._log_destroy_pending = False
                self.loop._ready.clear()
                self.loop._scheduled.clear()
        finally:
            self._uninstall()
            if self.loop is not None:
                with contextlib.suppress(Exception):
                    self.loop.close()

    # -- simulated commands ------------------------------------------------------------------
    async def _launch_command(self, command, *, shell, env, cwd, mp_ctx, run):
        proc = Proc(self, command, cwd, env, shell)
        self.procs.append(proc)
        self.running[proc.job_i] = proc
        self.logev("START", proc.label, proc.job_i)
        start_ev = self.nev
        for (path,) in self.db._con.execute(
            "SELECT f.label FROM dependency d JOIN node s ON s.i = d.sink "
            "JOIN node f ON f.i = d.source WHERE s.kind = 'step' AND f.kind = 'file' "
            "AND s.label = ?", (proc.label,)):
            proc.announced.setdefault(path, self.nev)
        hook = self.cfg.get("on_start")
        if hook is not None:
            hook(self, proc)
        code, stderr = 0, ""
        try:
            try:
                actions = self._program_of(proc)
                try:
                    await self._run_actions(proc, actions)
                finally:
                    if proc.pyscript and self.cfg.get("path_filter_amend", True):
                        # the real launcher of Python scripts ends every script, also a failing
                        # one, with amend(inp=get_local_import_paths()), whose getenv() amends
                        # the STEPUP_PATH_FILTER variable (stepup/core/run.py PYCODE_WRAPPER)
                        await self._run_actions(proc, [["amend", {"env": "STEPUP_PATH_FILTER"}]])
                if self.cfg.get("exit_gate", False):
                    await self.gate("proc", f"{proc.label}|exit")
            except ScriptExit as exc:
                code, stderr = exc.code, exc.stderr
        finally:
            self.running.pop(proc.job_i, None)
        proc.returncode = code
        self.logev("EXIT", proc.label, proc.job_i, code)
        self.cmd_windows.append((proc.label, proc.job_i, start_ev, self.nev, code))
        return ChildOutcome(code, "", stderr)

    def _program_of(self, proc):
        if proc.shell:
            # a shell command is simulated as a sequence of builtin commands, one per line
            actions = []
            for line in proc.command.split("\n"):
                line = line.strip()
                if not line:
                    continue
                parts = shlex.split(line)
                if parts[0] == "tr":
                    k = parts.index("--")
                    actions.append(["tr", parts[1], parts[2:k], parts[k + 1:]])
                elif parts[0] == "cp":
                    actions.append(["cp", parts[1], parts[2]])
                elif parts[0] == "false":
                    actions.append(["exit", 1])
                elif parts[0] != "true":
                    raise ScriptExit(127, f"shell command not simulated: {line}")
            return actions
        try:
            parts = shlex.split(proc.command)
        except ValueError:
            raise ScriptExit(2, "unparsable command") from None
        exe = parts[0]
        if exe.endswith(".py"):
            path = self.world.abspath(proc.rel(exe))
            try:
                with open(path) as fh:
                    first = fh.readline().rstrip()
                    rest = fh.readline()
                    rest = rest[2:] if rest.startswith("# ") else "!"
            except OSError as exc:
                raise ScriptExit(1, f"cannot read script: {exc}") from None
            if first != SHEBANG or not os.access(path, os.X_OK):
                raise ScriptExit(1, "not an executable script")
            try:
                doc = json.loads(rest)
            except ValueError:
                raise ScriptExit(1, "syntax error in script") from None
            proc.argv = parts[1:]
            proc.pyscript = True
            return doc["prog"]
        if exe == "tr":
            tag = parts[1]
            rest = parts[2:]
            k = rest.index("--")
            return [["tr", tag, rest[:k], rest[k + 1 :]]]
        if exe == "cp":
            return [["cp", parts[1], parts[2]]]
        if exe == "false":
            return [["exit", 1]]
        if exe in ("true", "echo"):
            return []
        raise ScriptExit(127, f"command not found: {exe}")

    async def _run_actions(self, proc, actions):
        for action in actions:
            op = action[0]
            if op == "hold":
                await self._act_hold(proc, action)
                continue
            if op == "glob" and len(action) > 3:
                await self._act_glob_body(proc, action)
                continue
            proc.nact += 1
            await self.gate("proc", f"{proc.label}|{proc.nact}:{op}")
            await self._act(proc, action)
            if op in ("write", "tr", "cp", "write_partial", "mkdir", "remove", "write_stash"):
                self.snap("fsact")

    async def _act(self, proc, action):
        op = action[0]
        w = self.world
        if op == "read":
            self._read(proc, action[1])
        elif op == "tryread":
            with contextlib.suppress(ScriptExit):
                self._read(proc, action[1])
        elif op == "write":
            srcs = action[2] if len(action) > 2 else []
            self._write(proc, action[1], srcs, tag=action[3] if len(action) > 3 else "")
        elif op == "tr":
            _, tag, inps, outs = action
            contents = [self._read(proc, p) for p in inps]
            if any(b"!fail" in c for c in contents):
                # a command that fails on bad input, before it writes anything
                raise ScriptExit(1, "bad input")
            for out in outs:
                self._write_data(proc, out, self._derive(proc, tag, out, contents))
        elif op == "cp":
            data = self._read(proc, action[1])
            self._write_data(proc, action[2], data)
        elif op == "write_partial":
            self._write_data(proc, action[1], b"PARTIAL")
        elif op == "stash":
            # remember what the file holds now (absent counts as content too)
            try:
                proc.stash.append(self._read(proc, action[1]))
            except ScriptExit:
                proc.stash.append(b"<absent>")
        elif op == "write_stash":
            self._write_data(proc, action[1], self._derive(proc, "stash", action[1], proc.stash))
        elif op == "mkdir":
            w.mkdir(proc.rel(action[1]))
        elif op == "remove":
            w.remove(proc.rel(action[1]), who=proc.label)
        elif op == "exit":
            raise ScriptExit(int(action[1]), "exit requested")
        elif op == "nop":
            pass
        elif op == "ifexists":
            # a script whose declarations depend on what it finds: [path, action if the path
            # exists, action otherwise]
            chosen = action[2] if w.exists(proc.rel(action[1])) else (action[3] if len(action) > 3 else None)
            if chosen is not None:
                await self._act(proc, chosen)
        elif op in ("static", "glob", "step", "run", "plan", "amend", "getinfo"):
            await self._act_api(proc, action)
        elif op == "rpc":
            reply = await self.rpc(proc, action[1], *action[2:])
            if isinstance(reply, RemoteFailure):
                raise ScriptExit(1, f"{reply.qualname}: {reply.message}")
        elif op == "rpc_ignore":
            await self.rpc(proc, action[1], *action[2:])
        else:
            raise HarnessError(f"unknown action {op}")

    def _read(self, proc, path):
        rel = proc.rel(path)
        try:
            data = self.world.read(rel)
        except OSError:
            self.logev("read", proc.label, rel, None)
            proc.reads.append((self.nev, rel, None))
            raise ScriptExit(1, f"FileNotFoundError: {path}") from None
        dg = hashlib.sha256(data).hexdigest()
        proc.reads.append((self.nev, rel, dg))
        self.logev("read", proc.label, rel, dg)
        return data

    @staticmethod
    def _derive(proc, tag, out, contents):
        from .realrt import derive

        return derive(shlex.split(proc.command)[0], tag, out, contents)

    def _write(self, proc, path, srcs, tag=""):
        if tag.startswith("$"):
            tag = "env=" + str(proc.env.get(tag[1:], "<unset>"))
        elif tag == "@argv":
            tag = "argv=" + " ".join(getattr(proc, "argv", []))
        contents = [self._read(proc, p) for p in srcs]
        self._write_data(proc, path, self._derive(proc, tag, path, contents))

    def _write_data(self, proc, path, data):
        rel = proc.rel(path)
        try:
            self.world.write(rel, data, who=proc.label)
        except OSError as exc:
            raise ScriptExit(1, f"cannot write {path}: {exc}") from None
        proc.writes.append((self.nev, rel, hashlib.sha256(data).hexdigest()))
        self.logev("write", proc.label, rel, hashlib.sha256(data).hexdigest())

    # -- RPC ---------------------------------------------------------------------------------
    async def rpc(self, proc, name, *args, **kwargs):
        """Send one request of a simulated step to the real handler and return the reply."""
        if args and args[0] == "$job":
            args = (proc.job_i, *args[1:])
        call = RPCCall(name, args, kwargs)
        task = self.loop.create_task(su_rpc._call_and_capture_failure(self.handler, call))
        self.task_parent[task] = asyncio.current_task()
        reply = await asyncio.shield(task)
        rec = (self.nev, proc.label if proc else None, name, args, kwargs, reply)
        self.rpc_replies.append(rec)
        if isinstance(reply, RemoteFailure):
            self.logev("rpcfail", proc.label if proc else None, name, reply.qualname, reply.message)
            if not reply.usage:
                self.exceptions.append((name, reply.qualname, reply.message, reply.traceback_text))
        else:
            self.logev("rpc", proc.label if proc else None, name)
        return reply

    @contextlib.contextmanager
    def _as_process(self, proc, client):
        """Make the real `stepup.core.api` believe it runs inside the step's process."""
        saved_env = dict(os.environ)
        saved_cwd = os.getcwd()
        saved = (su_api.get_rpc_client, su_api._AMEND_HISTORY, su_api._HOLD_STATE)
        os.environ.clear()
        os.environ.update({k: str(v) for k, v in proc.env.items()})
        target = self.world.abspath(proc.cwd)
        try:
            os.chdir(target)
            su_api.get_rpc_client = lambda path=None: client
            su_api._AMEND_HISTORY = proc.amend_history
            su_api._HOLD_STATE = proc.hold_state
            yield
        finally:
            su_api.get_rpc_client, su_api._AMEND_HISTORY, su_api._HOLD_STATE = saved
            os.chdir(saved_cwd)
            os.environ.clear()
            os.environ.update(saved_env)

    def _api_call(self, proc, action, client):
        op = action[0]
        with self._as_process(proc, client):
            if op == "static":
                return su_api.static(*action[1:])
            if op == "glob":
                subs = action[2] if len(action) > 2 else {}
                return su_api.glob(action[1], **subs)
            if op in ("step", "run", "plan"):
                kw = dict(action[2]) if len(action) > 2 else {}
                if "need" in kw:
                    from stepup.core.enums import Need

                    kw["need"] = Need(NEED_NAMES[kw["need"]])
                return getattr(su_api, op)(action[1], **kw)
            if op == "amend":
                return su_api.amend(**action[1])
            if op == "getinfo":
                return su_api.get_info()
        raise HarnessError(op)

    async def _act_api(self, proc, action):
        """Run one real API function on behalf of the step, RPCs going to the real handler."""
        replies = []
        result = None
        for _ in range(8):
            client = CapClient(replies)
            try:
                result = self._api_call(proc, action, client)
            except _NeedReply:
                reply = await self._send(proc, client.calls[-1])
                replies.append(reply)
                continue
            except ScriptExit:
                raise
            except Exception as exc:  # client-side error: the script dies with a traceback
                # send what was captured before the error, like the real client did
                for call in client.calls[len(replies) :]:
                    reply = await self._send(proc, call)
                    replies.append(reply)
                    if isinstance(reply, RemoteFailure):
                        break
                self.logev("apierr", proc.label, action[0], type(exc).__name__, str(exc))
                raise ScriptExit(1, f"{type(exc).__name__}: {exc}") from None
            self.logev("apicall", proc.label, proc.cwd, action,
                       [(c.name, c.args) for c in client.calls])
            # send the calls that did not need a reply yet
            for call in client.calls[len(replies) :]:
                reply = await self._send(proc, call)
                replies.append(reply)
                if isinstance(reply, RemoteFailure):
                    exc = reply.to_exception()
                    raise ScriptExit(1, f"{type(exc).__name__}: {exc}")
            return result
        raise HarnessError("api call did not converge")

    async def _send(self, proc, call):
        proc.rpc_log.append(call)
        if call.name == "define_step" and proc.hold_state.holding > 0:
            command, workdir = call.args[1], str(call.args[6])
            proc.held_defs.add(command if workdir in (".", "") else f"{command}  # wd={workdir}")
        reply = await self.rpc(proc, call.name, *call.args, **call.kwargs)
        if call.name == "amend_step" and not isinstance(reply, RemoteFailure):
            for path in call.args[1]:
                proc.announced.setdefault(str(path), self.nev)
            self.logev("amend", proc.label, sorted(str(x) for x in call.args[1]), reply)
        return reply

    async def _act_hold(self, proc, action):
        proc.nact += 1
        await self.gate("proc", f"{proc.label}|{proc.nact}:hold")
        reply = await self.rpc(proc, "hold_dispatch", proc.job_i)
        if isinstance(reply, RemoteFailure):
            raise ScriptExit(1, reply.message)
        proc.hold_state.holding += 1
        try:
            await self._run_actions(proc, action[1])
        finally:
            proc.nact += 1
            await self.gate("proc", f"{proc.label}|{proc.nact}:release")
            reply = await self.rpc(proc, "release_dispatch", proc.job_i)
            if not isinstance(reply, RemoteFailure):
                proc.hold_state.holding -= 1
                if proc.hold_state.holding == 0:
                    proc.held_defs.clear()
            elif sys.exc_info()[0] is None:
                raise ScriptExit(1, reply.message)

    async def _act_glob_body(self, proc, action):
        """["glob", pattern, subs, body]: run body once per match with {name} substitution."""
        proc.nact += 1
        await self.gate("proc", f"{proc.label}|{proc.nact}:glob")
        ng = await self._act_api(proc, ["glob", action[1], action[2]])
        body = action[3]
        if len(ng._used_names) > 0:
            for match in ng.matches():
                mapping = dict(match.mapping)
                files = match.files
                mapping["path"] = str(files[0] if isinstance(files, list) else files)
                await self._run_actions(proc, _subst(body, mapping))
        else:
            for path in ng.files():
                await self._run_actions(proc, _subst(body, {"path": str(path)}))


def make_gated_inotify(sim):
    """The real kernel inotify (asyncinotify.Inotify), read without blocking; only the moment at
    which an event is handed to the watcher is decided by the explorer."""
    from asyncinotify import Inotify

    class GatedInotify(Inotify):
        def __init__(self, *a, **k):
            super().__init__(sync_timeout=0)
            self._vbuf = []
            sim.inotifies.append(self)

        async def get(self):
            while True:
                if not self._vbuf:
                    ev = self.sync_get()
                    if ev is None:
                        fut = sim.loop.create_future()
                        sim.ino_waiters.append((self, fut))
                        await fut
                        continue
                    self._vbuf.append(ev)
                ev = self._vbuf[0]
                await sim.gate("ino", f"{ev.path} {int(ev.mask)}")
                return self._vbuf.pop(0)

    return GatedInotify


def _subst(obj, mapping):
    if isinstance(obj, str):
        for k, v in mapping.items():
            obj = obj.replace("{" + k + "}", str(v))
        return obj
    if isinstance(obj, list):
        return [_subst(x, mapping) for x in obj]
    if isinstance(obj, dict):
        return {k: _subst(v, mapping) for k, v in obj.items()}
    return obj


# ------------------------------------------------------------------------------------------
# Choosers
# ------------------------------------------------------------------------------------------


def default_chooser(sim, enabled):
    return 0


class PrefixChooser:
    """Replay a list of choices, then choice 0; records the enabled counts at every point."""

    def __init__(self, prefix):
        self.prefix = list(prefix)
        self.i = 0

    def __call__(self, sim, enabled):
        i = self.i
        self.i += 1
        if i < len(self.prefix):
            c = self.prefix[i]
            if c >= len(enabled):
                raise HarnessError(
                    f"replay divergence: choice {c} of {len(enabled)} at point {i}: "
                    f"{[e.label() for e in enabled]}"
                )
            return c
        return 0


def rc_class(rc):
    """success / failed / pending / other class of a ReturnCode."""
    if rc is None:
        return "none"
    v = rc.value if isinstance(rc, ReturnCode) else int(rc)
    if v == 0:
        return "success"
    names = []
    for flag in ReturnCode:
        if v & flag.value:
            names.append(flag.name)
    return "+".join(names)
