"""Histories: a project description, a sequence of edits, a build after each (DESIGN.md C01)."""

import copy
import os

from . import projects
from .dirx import fresh_world, session
from .harness import SHEBANG
from .runner import h8


def desc_files(desc):
    files = getattr(projects, desc["fam"])(**desc.get("knobs", {}))
    for path, content in desc.get("over", {}).items():
        if content is None:
            files.pop(path, None)
        elif path in files:
            # an edited source only exists as a source while the plan (knob vector) has it as one;
            # while a step produces that path the override is dormant
            files[path] = content
    return files


def desc_key(desc):
    return h8([desc["fam"], sorted(desc.get("knobs", {}).items(), key=repr),
               sorted(desc.get("over", {}).items(), key=repr), sorted(desc.get("env", {}).items()),
               desc.get("act")])


def knob_edits(desc):
    desc = {k: v for k, v in desc.items() if k != "act"}
    dom = projects.DOMAINS.get(desc["fam"], {})
    cur = {**{k: v[0] for k, v in dom.items()}, **desc.get("knobs", {})}
    for knob, values in dom.items():
        for v in values:
            if v != cur.get(knob):
                d = copy.deepcopy(desc)
                d.setdefault("knobs", {})[knob] = v
                yield (f"{knob}={v}", d)
    for name, values in projects.ENV_DOMAIN.get(desc["fam"], {}).items():
        for v in values:
            if desc.get("env", {}).get(name) != v:
                d = copy.deepcopy(desc)
                env = d.setdefault("env", {})
                if v is None:
                    env.pop(name, None)
                else:
                    env[name] = v
                yield (f"env {name}={v}", d)


def pair_edits(desc):
    """Two knobs changed before one build: the user edits two files, then builds."""
    singles = list(knob_edits(desc))
    dom = projects.DOMAINS.get(desc["fam"], {})
    for i, (la, da) in enumerate(singles):
        for lb, db in singles[i + 1:]:
            ka, kb = la.split("=")[0], lb.split("=")[0]
            if ka == kb or la.startswith("env ") or lb.startswith("env ") or ka not in dom or kb not in dom:
                continue
            d = copy.deepcopy(da)
            d["knobs"][kb] = db["knobs"][kb]
            yield (f"{la}+{lb}", d)


def knob_and_pair_edits(desc):
    yield from knob_edits(desc)
    yield from pair_edits(desc)


def source_edits(desc, kinds=("change", "delete")):
    """Edits of plain source files (not scripts): change the content, delete, restore."""
    desc = {k: v for k, v in desc.items() if k != "act"}
    base = getattr(projects, desc["fam"])(**desc.get("knobs", {}))
    over = desc.get("over", {})
    for path, content in sorted(base.items()):
        if path.endswith("/") or content.startswith(SHEBANG):
            continue
        if path in over:
            d = copy.deepcopy(desc)
            del d["over"][path]
            yield (f"restore {path}", d)
        else:
            if "change" in kinds:
                d = copy.deepcopy(desc)
                d.setdefault("over", {})[path] = content + "edited\n"
                yield (f"change {path}", d)
            if "delete" in kinds:
                d = copy.deepcopy(desc)
                d.setdefault("over", {})[path] = None
                yield (f"delete {path}", d)


def all_edits(desc):
    yield from knob_edits(desc)
    yield from source_edits(desc)


def sync(world, old_files, new_files):
    """Bring the sources of the world from old_files to new_files (outputs are left alone)."""
    for path in sorted(new_files):
        content = new_files[path]
        if path.endswith("/"):
            world.mkdir(path)
        elif old_files.get(path) != content or not world.exists(path):
            if os.path.isdir(world.abspath(path)):
                world.remove(path)
            world.write(path, content)
    for path in sorted(old_files):
        if path not in new_files and not path.endswith("/") and world.exists(path):
            world.remove(path)


def user_action(world, action, path):
    """What a user may do to a path between two builds (C06)."""
    if action == "overwrite":
        if os.path.isdir(world.abspath(path)):
            world.remove(path)
        world.write(path, "overwritten by the user\n")
    elif action == "delete":
        world.remove(path)
    elif action == "to_dir":
        world.remove(path)
        world.mkdir(path)
        world.write(path + "/inside.txt", "user file inside\n")
    elif action == "foreign":
        if not os.path.isdir(world.abspath(path)):
            world.write(path, "foreign file\n")
    elif action == "touch":
        world.touch(path)
    else:
        raise ValueError(action)


def build(world, desc, cfg=None, prefix=(), want_raw=True):
    c = dict(cfg or {})
    c["environ"] = {**c.get("environ", {}), **desc.get("env", {})}
    return session(world, c, prefix, want_raw=want_raw)


def shortcut_bits(world, obs):
    bits = []
    for label, (mtime, size, inode, mode) in sorted(getattr(obs, "db_hashmeta", {}).items()):
        try:
            st = os.stat(world.abspath(label))
            bits.append((label, st.st_mtime == mtime and st.st_size == size and st.st_ino == inode
                         and st.st_mode == mode))
        except OSError:
            bits.append((label, None))
    return bits


def state_key(world, obs, desc):
    return h8([obs.raw, sorted(obs.fs.items()), shortcut_bits(world, obs), desc_key(desc),
               obs.rc_class])


def run_history(descs, cfg=None, last_prefix=(), cfgs=None):
    """Build descs[0] from scratch, then apply each later description as an edit and rebuild.

    Returns (world, [obs...]); the caller destroys the world.
    """
    files = desc_files(descs[0])
    world = fresh_world(files, "h")
    obs_list = []
    for i, desc in enumerate(descs):
        if i > 0:
            new_files = desc_files(desc)
            sync(world, files, new_files)
            files = new_files
            for action, path in desc.get("act", ()):
                user_action(world, action, path)
        c = cfgs[i] if cfgs else cfg
        prefix = last_prefix if i == len(descs) - 1 else ()
        obs = build(world, desc, c, prefix)
        obs.desc = desc
        obs_list.append(obs)
        if obs.fault or obs.error:
            break
    return world, obs_list


_scratch_cache = {}


def scratch_build(desc, cfg=None):
    """Build the sources of `desc` in a fresh directory (memoized per description and cfg)."""
    key = desc_key(desc) + h8(sorted((cfg or {}).items(), key=repr))
    if key not in _scratch_cache:
        world, obs_list = run_history([desc], cfg)
        world.destroy()
        _scratch_cache[key] = obs_list[-1]
    return _scratch_cache[key]


def bfs(start, depth, edits_fn, visit, cfg=None, first=None, max_states=None):
    """Breadth-first over edit histories from `start`, deduplicated by reached state.

    `visit(labels, descs, obs_list, world)` is called once per distinct state.
    Returns (histories_run, states, truncated).
    """
    frontier = [([], [start])]
    if first is not None:
        frontier = [([first[0]], [start, first[1]])]
    seen = set()
    nrun = 0
    for level in range(depth + 1):
        nxt = []
        for labels, descs in frontier:
            world, obs_list = run_history(descs, cfg)
            nrun += 1
            last = obs_list[-1]
            try:
                if len(obs_list) < len(descs) or last.raw is None:
                    visit(labels, descs[: len(obs_list)], obs_list, world)
                    continue
                key = state_key(world, last, descs[-1])
                if key in seen:
                    continue
                seen.add(key)
                visit(labels, descs, obs_list, world)
            finally:
                world.destroy()
            if max_states is not None and len(seen) >= max_states:
                return nrun, len(seen), True
            if level < depth and len(labels) < depth:
                for elabel, d in edits_fn(descs[-1]):
                    nxt.append(([*labels, elabel], [*descs, d]))
        frontier = nxt
        if not frontier:
            break
    return nrun, len(seen), False


def delta_label(prev, cur):
    parts = []
    pk, ck = prev.get("knobs", {}), cur.get("knobs", {})
    for k in sorted(set(pk) | set(ck)):
        if pk.get(k) != ck.get(k):
            parts.append(f"{k}={ck.get(k, '<default>')}")
    po, co = prev.get("over", {}), cur.get("over", {})
    for k in sorted(set(po) | set(co)):
        if po.get(k) != co.get(k):
            if k not in co:
                parts.append(f"restore {k}")
            elif co[k] is None:
                parts.append(f"delete {k}")
            else:
                parts.append(f"change {k}")
    for action, path in cur.get("act", ()):
        parts.append(f"user:{action} {path}")
    pe, ce = prev.get("env", {}), cur.get("env", {})
    for k in sorted(set(pe) | set(ce)):
        if pe.get(k) != ce.get(k):
            parts.append(f"env {k}={ce.get(k)}")
    return ",".join(parts) or "same"


def history_label(descs):
    start = ",".join(f"{k}={v}" for k, v in sorted(descs[0].get("knobs", {}).items()))
    steps = ">".join(delta_label(a, b) for a, b in zip(descs, descs[1:]))
    return f"[{start}]{steps}"


def shrink(descs, violates, budget=12):
    """Drop builds from a history while `violates(descs)` stays true (greedy, bounded)."""
    cur = list(descs)
    changed = True
    while changed and budget > 0:
        changed = False
        for i in range(len(cur) - 1):
            if len(cur) <= 1:
                break
            cand = cur[:i] + cur[i + 1 :]
            budget -= 1
            try:
                if violates(cand):
                    cur = cand
                    changed = True
                    break
            except Exception:  # noqa: BLE001
                pass
            if budget <= 0:
                break
    return shrink_changes(cur, violates, budget)


def shrink_changes(descs, violates, budget=12):
    """Revert individual knob / file / environment changes that the violation does not need."""
    cur = [copy.deepcopy(d) for d in descs]
    base = cur[0]
    keys = set()
    for d in cur[1:]:
        for sect in ("knobs", "over", "env"):
            a, b = base.get(sect, {}), d.get(sect, {})
            for k in set(a) | set(b):
                if a.get(k, "<none>") != b.get(k, "<none>"):
                    keys.add((sect, k))
    for sect, k in sorted(keys, key=repr):
        if budget <= 0:
            break
        cand = []
        for d in cur:
            d2 = copy.deepcopy(d)
            if k in base.get(sect, {}):
                d2.setdefault(sect, {})[k] = base[sect][k]
            else:
                d2.get(sect, {}).pop(k, None)
            if not cand or desc_key(cand[-1]) != desc_key(d2):
                cand.append(d2)
        if len(cand) < 2:
            continue
        budget -= 1
        try:
            if violates(cand):
                cur = cand
        except Exception:  # noqa: BLE001
            pass
    return cur
