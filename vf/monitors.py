"""Monitors that run inside the closed system (dispatch exactness for C10)."""

from stepup.core import builder as su_builder
from stepup.core import scheduler as su_scheduler

PENDING, RUNNING, SUCCEEDED = 21, 22, 23
OPTIONAL, DEFAULT, TARGET = 31, 32, 33


def read_tables(con):
    t = {}
    t["node"] = {i: (kind, label, creator, bool(det)) for i, kind, label, creator, det in
                 con.execute("SELECT i, kind, label, creator, detached FROM node")}
    cols = ("node, state, need, deferred, _safe, _safe_ignoring_hold, _holding, _implied_need, "
            "_has_hash, _ready, _check_safe, _check_after, _check_ready, defer_count")
    t["step"] = {r[0]: dict(zip(cols.split(", "), r)) for r in con.execute(f"SELECT {cols} FROM step")}
    t["file"] = {n: state for n, state in con.execute("SELECT node, state FROM file")}
    t["dep"] = [(i, s, k) for i, s, k in con.execute("SELECT i, source, sink FROM dependency")]
    t["dyn"] = {i for (i,) in con.execute("SELECT i FROM dynamic_dep")}
    t["hash"] = {n for (n,) in con.execute("SELECT node FROM step_hash")}
    t["res"] = {}
    for n, name, units in con.execute("SELECT node, name, units FROM step_resource"):
        t["res"].setdefault(n, {})[name] = units
    try:
        t["avail"] = dict(con.execute("SELECT name, units FROM available_resource"))
        t["target_path"] = {p for (p,) in con.execute("SELECT path FROM target_path")}
        t["target_dir"] = [p for (p,) in con.execute("SELECT path FROM target_dir")]
    except Exception:  # noqa: BLE001
        t["avail"], t["target_path"], t["target_dir"] = {}, set(), []
    return t


def reference(t):
    """Reference values of the cached scheduling attributes and the eligible set."""
    node, step, file = t["node"], t["step"], t["file"]
    inputs, outputs = {}, {}
    for i, s, k in t["dep"]:
        if node[s][0] == "file" and node[k][0] == "step":
            inputs.setdefault(k, []).append((s, i in t["dyn"]))
        elif node[s][0] == "step" and node[k][0] == "file":
            outputs.setdefault(s, []).append(k)
    memo = {}

    def safe(n, hold):
        key = (n, hold)
        if key in memo:
            return memo[key]
        c = node[n][2]
        if c is None or c not in step:
            r = True
        else:
            cs = step[c]
            r = safe(c, hold) and cs["state"] in (RUNNING, SUCCEEDED) and (not hold or cs["_holding"] == 0)
        memo[key] = r
        return r

    def ready(n):
        for f, dyn in inputs.get(n, []):
            st, det = file[f], node[f][3]
            if st == 18:
                return False
            if dyn:
                if not det and st in (15, 17):
                    return False
            elif det or st not in (14, 16):
                return False
        return True

    attached = [n for n in step if not node[n][3]]
    val = {}
    for n in attached:
        v = step[n]["need"]
        regular = [f for f in outputs.get(n, []) if not node[f][3] and file[f] != 18]
        if any(node[f][1] in t["target_path"] for f in regular):
            v = max(v, TARGET)
        elif step[n]["need"] == DEFAULT and any(node[f][1].startswith(d) for f in regular for d in t["target_dir"]):
            v = max(v, TARGET)
        val[n] = v
    consumers = {}
    for n in attached:
        for f, _ in inputs.get(n, []):
            consumers.setdefault(f, []).append(n)
    changed = True
    while changed:
        changed = False
        for n in attached:
            best = val[n]
            for f in outputs.get(n, []):
                for c in consumers.get(f, []):
                    best = max(best, val[c])
            if best != val[n]:
                val[n] = best
                changed = True
    threshold = DEFAULT if (t["target_path"] or t["target_dir"]) else OPTIONAL
    used = {}
    for n, s in step.items():
        if s["state"] == RUNNING:
            for name, units in t["res"].get(n, {}).items():
                used[name] = used.get(name, 0) + units

    def res_ok(n):
        for name, units in t["res"].get(n, {}).items():
            if name not in t["avail"] or t["avail"][name] - used.get(name, 0) < units:
                return False
        return True

    ref = {}
    eligible = set()
    for n in attached:
        s = step[n]
        r = {"_safe": safe(n, True), "_safe_ignoring_hold": safe(n, False), "_ready": ready(n),
             "_implied_need": val[n], "_has_hash": n in t["hash"]}
        ref[n] = r
        if (s["state"] == PENDING and not s["deferred"] and val[n] > max(OPTIONAL, threshold) and r["_ready"]
                and (r["_safe"] or (r["_has_hash"] and r["_safe_ignoring_hold"]))
                and (r["_has_hash"] or res_ok(n))):
            eligible.add(n)
    return ref, eligible


def install(sim):
    """Patch list for Sim(extra_patches=...): check every dispatch decision and every phase end."""
    orig_get = su_scheduler.Scheduler._get_next_step
    orig_loop = su_builder.Builder.job_loop

    def get_next_step(sched):
        result = orig_get(sched)
        con = sched.db._con
        t = read_tables(con)
        ref, eligible = reference(t)
        sim.flags.add("dispatch-decisions")
        sim.counters["decisions"] = sim.counters.get("decisions", 0) + 1
        for n, r in ref.items():
            for col, v in r.items():
                if bool(t["step"][n][col]) != bool(v) if col != "_implied_need" else t["step"][n][col] != v:
                    sim.monitor.append(("stale-cache", f"{t['node'][n][1]}: {col} is {t['step'][n][col]} "
                                        f"but its definition gives {v}"))
        if result is None:
            if eligible:
                sim.monitor.append(("eligible-not-dispatched",
                                    f"nothing dispatched although eligible: {[t['node'][n][1] for n in eligible]}"))
        else:
            step, _state = result
            if step.i not in eligible:
                sim.monitor.append(("ineligible-dispatched", f"{step.label} dispatched but is not eligible: "
                                    f"{t['step'].get(step.i)} ref={ref.get(step.i)}"))
            if len(eligible) > 1:
                sim.flags.add("choice-among-eligible")
        return result

    async def job_loop(builder):
        await orig_loop(builder)
        if not builder.scheduler.draining:
            t = read_tables(builder.db._con)
            _ref, eligible = reference(t)
            if eligible:
                sim.monitor.append(("phase-ended-with-eligible",
                                    f"build phase ended, still eligible: {[t['node'][n][1] for n in eligible]}"))

    return [(su_scheduler.Scheduler, "_get_next_step", get_next_step),
            (su_builder.Builder, "job_loop", job_loop)]
