"""OPX: explicit-state search over online request sequences against the real director.

A state is the list of events that reaches it; it is rebuilt by replaying the list on a fresh
loop and a fresh copy of the universe (live coroutines cannot be copied). Every running command
offers the whole request menu and its exits; hash and reporter gates follow the default policy.
"""

import glob as stdglob
import hashlib
import os
import sqlite3

from stepup.core.outcome import ChildOutcome
from stepup.core.rpc import RemoteFailure

from . import canon
from .harness import SHEBANG, Crash, Deadlock, Sim, World, rc_class
from .runner import h8, scratch_dir

INTERNAL_ERRORS = ("ConsistencyError", "AssertionError", "IntegrityError", "OperationalError",
                   "InterfaceError", "DatabaseError", "ProgrammingError", "KeyError", "IndexError",
                   "AttributeError", "UnboundLocalError", "NotImplementedError", "RecursionError",
                   "InvalidStateError", "StopIteration", "ZeroDivisionError")

UNIVERSE = {"plan.py": SHEBANG + "\n# online\n", "a": "a\n", "d/e": "e\n"}

DEFAULTS = (".", 32, {}, False, None, None)  # workdir, need, resources, shell, overrides, duration


def step_req(cmd, inp=(), out=(), vol=(), need=32, res=None, env=()):
    return ("define_step", "$job", cmd, list(inp), list(env), list(out), list(vol), ".", need,
            dict(res or {}), False, None, None)


MENU_STATIC = [
    ("declare_static", "$job", [], ["a"], []),
    ("declare_static", "$job", [], ["b"], []),
    ("declare_static", "$job", [], ["d/e"], []),
    ("declare_static", "$job", [], ["a", "d/e"], []),
    ("declare_static", "$job", ["d/"], [], []),
    ("declare_static", "$job", ["d/s/"], [], []),
    ("declare_static", "$job", [], [], [("*", "$glob")]),
    ("declare_static", "$job", [], [], [("d/*", "$glob")]),
    ("register_glob", "$job", "d/*", {}, "$glob"),
]
MENU_STEPS = [
    step_req("s1", ["a"], ["b"]),
    step_req("s1", ["a"], ["c"]),
    step_req("s2", ["b"], ["c"]),
    step_req("s2", ["b"], ["c"], need=31),
    step_req("s3", [], [], ["c"]),
    step_req("s3", [], ["d/c"]),
    step_req("s3", ["d/e"], ["b"]),
    step_req("s2", ["c"], ["a"]),
    step_req("s1", ["a"], ["b"], res={"r": 1}),
    step_req("s2", ["b"], ["c"], res={"q": 1}),
    step_req("s3", ["a"], ["d/c"], need=34),
    step_req("s3", ["c"], ["b"]),
]
MENU_AMEND = [
    ("amend_step", "$job", ["b"], [], [], []),
    ("amend_step", "$job", ["d/e"], [], [], []),
    ("amend_step", "$job", ["c"], [], [], []),
    ("amend_step", "$job", [], [], ["c"], []),
    ("amend_step", "$job", [], [], ["b"], []),
    ("amend_step", "$job", [], [], [], ["c"]),
    ("amend_step", "$job", [], ["VERIF_X"], [], []),
]
MENU_HOLD = [("hold_dispatch", "$job"), ("release_dispatch", "$job"), ("get_step_info", "$job")]
MENU_MALFORMED = [
    ("define_step", 9999, "s1", ["a"], [], ["b"], [], ".", 32, {}, False, None, None),
    step_req("s1", ["d/"], ["b"]),
    step_req("s1", ["a"], [".stepup/x"]),
    step_req("", ["a"], ["b"]),
    ("define_step", "$job", "s1", ["a"], [], ["b"], [], ".", 77, {}, False, None, None),
    ("define_step", "$job", "s1", ["a"], [], ["b"], [], ".", 32, {}, False, {"ROOT": "x"}, None),
    step_req("s1", ["a"], ["b"], ["b"]),
    ("amend_step", "$job", ["d/"], [], [], []),
    ("declare_static", "$job", ["./"], [], []),
]
EXITS = ["ok", "partial", "fail"]
FULL_MENU = MENU_STATIC + MENU_STEPS + MENU_AMEND + MENU_HOLD + MENU_MALFORMED

FS_EVENTS = [("change", "a"), ("delete", "a"), ("restore", "a"), ("change", "d/e"), ("delete", "d/e"),
             ("touch_out", "b")]


def req_label(req):
    return repr(req)


class Machine:
    """Replays an event list; exposes the state it reaches and what the last event did."""

    def __init__(self, menu=None, njob=2, check=None, fs_events=True, targets_menu=((), ("c",), ("d/",)),
                 exits=EXITS, allow_kill=True, resources="r:1", reporter="instant"):
        self.menu = menu if menu is not None else FULL_MENU
        self.njob = njob
        self.check = check  # object with optional on_commit / after_event / on_start hooks
        self.fs_events = fs_events
        self.targets_menu = targets_menu
        self.exits = exits
        self.allow_kill = allow_kill
        self.resources = resources
        self.reporter = reporter

    # -- world / session management --------------------------------------------------------------
    def new_world(self):
        w = World(scratch_dir("opx"))
        w.materialize(UNIVERSE)
        os.chmod(w.abspath("plan.py"), 0o755)
        return w

    def start_session(self, world, targets):
        tfiles = [t for t in targets if not t.endswith("/")]
        tdirs = [t for t in targets if t.endswith("/")]
        machine = self

        def wired(sim, handler):
            con = sim.db._con
            con.execute("CREATE TEMP TABLE IF NOT EXISTS vf_log (tbl TEXT, node INTEGER, old INTEGER, new INTEGER)")
            for tbl in ("file", "step"):
                con.execute(f"CREATE TEMP TRIGGER IF NOT EXISTS vf_{tbl}_u AFTER UPDATE OF state ON {tbl} "
                            f"BEGIN INSERT INTO vf_log VALUES ('{tbl}', NEW.node, OLD.state, NEW.state); END")
                con.execute(f"CREATE TEMP TRIGGER IF NOT EXISTS vf_{tbl}_i AFTER INSERT ON {tbl} "
                            f"BEGIN INSERT INTO vf_log VALUES ('{tbl}', NEW.node, NULL, NEW.state); END")
                con.execute(f"CREATE TEMP TRIGGER IF NOT EXISTS vf_{tbl}_d AFTER DELETE ON {tbl} "
                            f"BEGIN INSERT INTO vf_log VALUES ('{tbl}', OLD.node, OLD.state, NULL); END")

        def precommit(sim, db):
            if machine.check is not None and getattr(sim, "opx_checking", False):
                machine.check.on_commit(sim, db._con)

        sim = Sim(world, njob=self.njob, reporter=self.reporter, resources=self.resources, targets=tfiles,
                  target_dirs=tdirs, wired_hook=wired, precommit_hook=precommit, horizon=100000)
        sim.opx_checking = False
        sim.online_replies = []
        sim.start()
        # replace the scripted launcher by the online one for this session
        from stepup.core import executor as su_executor

        async def launch(command, *, shell, env, cwd, mp_ctx, run):
            return await online_command(sim, command, env, cwd)

        sim._patch(su_executor, "launch_command", launch)
        return sim

    def settle(self, sim):
        """Run until only online proc gates are open (hash gates follow the default policy)."""
        for _ in range(100000):
            if sim.quiesce():
                return True
            auto = [g for g in sim.enabled() if getattr(g, "kind", None) in ("hash", "rep")]
            if not auto:
                procs = [g for g in sim.gates if g.kind == "proc" and not g.fut.done()]
                if not procs:
                    if sim.loop.fire_next_timer():
                        continue
                    raise Deadlock("no open gate, session not finished")
                return False
            sim.fire(auto[0])
        raise Deadlock("settle did not converge")

    # -- replay ------------------------------------------------------------------------------------
    def replay(self, events):
        """Return a dict describing the state reached by `events` (the world is destroyed)."""
        world = self.new_world()
        sim = None
        info = {"last": None, "violations": [], "phase_ends": []}
        try:
            for i, ev in enumerate(events):
                is_last = i == len(events) - 1
                sim = self.apply(world, sim, ev, info, is_last)
            state = self.observe(world, sim, info)
            return state
        finally:
            if sim is not None:
                sim.close()
            world.destroy()

    def finish_if_done(self, world, sim, info):
        if sim is None:
            return None
        if sim.main.done() or sim.crashed:
            exc = None
            if sim.main.done() and not sim.main.cancelled():
                exc = sim.main.exception()
            rec = {"rc": None, "error": None}
            if exc is not None:
                import traceback

                rec["error"] = "".join(traceback.format_exception(exc))[-3000:]
                rec["error_type"] = type(exc).__name__
            elif sim.main.done():
                rec["rc"] = sim.main.result()
            rec["reports"] = [r[:2] for r in sim.reports if r[0] in ("WARNING", "ERROR", "FAIL")]
            try:
                rec["graph"] = sim.graph_text()
                rec["draining"] = sim.handler.scheduler.draining
            except Exception:  # noqa: BLE001
                rec["graph"] = None
            info["phase_ends"].append(rec)
            info["last_phase"] = rec
            sim.close()
            return None
        return sim

    def apply(self, world, sim, ev, info, is_last):
        kind = ev[0]
        before = None
        if is_last and self.check is not None:
            before = self.snapshot(world, sim)
        if sim is not None:
            sim.opx_checking = is_last
            sim.db._con.execute("DELETE FROM vf_log") if self._has_log(sim) else None
        reply = None
        if kind == "start":
            assert sim is None
            sim = self.start_session(world, ev[1])
            sim.opx_checking = is_last
        elif kind == "req":
            _, label, req = ev
            gate = self.proc_gate(sim, label)
            sim.online_replies.clear()
            sim.fire_payload(gate, ("req", req, world))
        elif kind == "exit":
            _, label, mode = ev
            gate = self.proc_gate(sim, label)
            sim.fire_payload(gate, ("exit", mode, world))
        elif kind == "fs":
            _, op, path = ev
            self.fs_event(world, sim, op, path)
        elif kind == "kill":
            sim.crashed = True
        elif kind == "drain":
            sim.loop.create_task(sim.handler.drain())
        else:
            raise ValueError(ev)
        exc_info = None
        if sim is not None and not sim.crashed:
            try:
                self.settle(sim)
            except Deadlock as exc:
                exc_info = ("deadlock", str(exc))
        if sim is not None and kind == "req":
            reply = sim.online_replies[-1] if sim.online_replies else None
        log = self.read_log(sim) if sim is not None and not sim.crashed else []
        ended_before = len(info["phase_ends"])
        sim2 = self.finish_if_done(world, sim, info)
        if is_last:
            info["last"] = {"event": ev, "reply": reply, "log": log, "fault": exc_info,
                            "phase_ended": len(info["phase_ends"]) > ended_before}
            if self.check is not None:
                after = self.snapshot(world, sim2)
                self.check.after_event(self, ev, before, after, info, sim2)
        return sim2

    @staticmethod
    def _has_log(sim):
        try:
            sim.db._con.execute("SELECT 1 FROM vf_log LIMIT 1")
            return True
        except sqlite3.Error:
            return False

    def read_log(self, sim):
        try:
            con = sim.db._con
            rows = con.execute(
                "SELECT l.tbl, n.kind || ':' || n.label, l.old, l.new FROM vf_log l "
                "LEFT JOIN node n ON n.i = l.node").fetchall()
            return rows
        except sqlite3.Error:
            return []

    def proc_gate(self, sim, label):
        for g in sim.gates:
            if g.kind == "proc" and g.key == label and not g.fut.done():
                return g
        raise KeyError(f"no running command {label}")

    def fs_event(self, world, sim, op, path):
        if op == "change":
            world.write(path, f"changed {world.seq}\n")
        elif op == "delete":
            if world.exists(path):
                world.remove(path)
        elif op == "restore":
            world.write(path, UNIVERSE.get(path, "restored\n"))
        elif op == "touch_out":
            if world.exists(path):
                world.write(path, "user wrote this\n")
        elif op == "restore_out":
            data = getattr(world, "last_step_content", {}).get(path)
            if data is not None:
                world.write(path, data)

    # -- observation ---------------------------------------------------------------------------------
    def raw(self, world, sim):
        if sim is not None and sim.db is not None and sim.db._con is not None:
            return canon.canon_raw(sim.db._con)
        path = os.path.join(world.root, ".stepup", "graph.db")
        if not os.path.exists(path):
            return None
        con = sqlite3.connect(path)
        try:
            return canon.canon_raw(con)
        except sqlite3.Error:
            return None
        finally:
            con.close()

    def snapshot(self, world, sim):
        return {"raw": self.raw(world, sim), "fs": world.fs_state()}

    def running(self, sim):
        if sim is None:
            return []
        return sorted(g.key for g in sim.gates if g.kind == "proc" and not g.fut.done())

    def observe(self, world, sim, info):
        raw = self.raw(world, sim)
        fs = world.fs_state()
        running = self.running(sim)
        mem = None
        if sim is not None and sim.handler is not None:
            mem = (sim.handler.scheduler.draining, sorted(sim.handler.workflow.to_be_deleted),
                   sorted(sim.handler.builder.hash_queue.in_flight),
                   tuple(sim.cfg.get("targets", ())), tuple(sim.cfg.get("target_dirs", ())))
        key = h8([raw, sorted(fs.items()), running, mem, sim is not None])
        return {"key": key, "raw": raw, "fs": fs, "running": running, "alive": sim is not None,
                "enabled": self.enabled_events(world, sim, raw), "info": info}

    def enabled_events(self, world, sim, raw):
        evs = []
        if sim is None:
            for t in self.targets_menu:
                evs.append(("start", tuple(t)))
        else:
            for label in self.running(sim):
                for req in self.menu:
                    evs.append(("req", label, req))
                for mode in self.exits:
                    evs.append(("exit", label, mode))
            if self.allow_kill:
                evs.append(("kill",))
                evs.append(("drain",))
        if self.fs_events:
            menu = getattr(self, "fs_menu", None) or (FS_EVENTS[:3] if getattr(self, "fs_core", False) else FS_EVENTS)
            for op, path in menu:
                exists = world.exists(path)
                if op == "delete" and not exists:
                    continue
                if op == "restore" and exists:
                    continue
                if op == "touch_out" and not exists:
                    continue
                if op == "restore_out" and path not in getattr(world, "last_step_content", {}):
                    continue
                evs.append(("fs", op, path))
        return evs


async def online_command(sim, command, env, cwd):
    """A command whose behaviour is chosen event by event by the explorer."""
    label = command if str(cwd) in (".", "") else f"{command}  # wd={cwd}"
    job_i = int(env["STEPUP_JOB_I"])
    sim.logev("START", label, job_i)
    while True:
        payload = await sim.gate("proc", label)
        kind = payload[0]
        world = payload[2]
        if kind == "req":
            req = list(payload[1])
            name = req[0]
            args = []
            for a in req[1:]:
                if a == "$job":
                    a = job_i
                elif a == "$glob":
                    a = None
                args.append(a)
            if name == "declare_static":
                pats = []
                for pat, m in args[3]:
                    pats.append((pat, scan(world, pat) if m == "$glob" else m))
                args[3] = pats
            elif name == "register_glob" and args[3] is None:
                if args[2]:
                    # named wildcards with substitutions: scan like the real client does
                    args[3] = nscan(world, args[1], args[2])
                else:
                    args[3] = scan(world, args[1])
            reply = await sim.rpc(None, name, *args)
            sim.online_replies.append(reply)
        elif kind == "exit":
            mode = payload[1]
            if mode == "fail":
                return ChildOutcome(1, "", "failed on request")
            con = sim.db._con
            outs = [r[0] for r in con.execute(
                "SELECT f.label FROM dependency d JOIN node s ON s.i = d.source JOIN node f ON f.i = d.sink "
                "WHERE s.kind = 'step' AND s.label = ? AND f.kind = 'file' ORDER BY f.label", (label,))]
            if mode == "partial":
                outs = outs[1:]
            for path in outs:
                data = ("OUT " + hashlib.sha256((label + path).encode()).hexdigest()[:16] + "\n")
                try:
                    world.write(path, data, who=label)
                    # remembered so that a user can later put the very same content back
                    if not hasattr(world, "last_step_content"):
                        world.last_step_content = {}
                    world.last_step_content[path] = data
                except OSError:
                    pass
            return ChildOutcome(0, "", "")


def nscan(world, pattern, subs):
    from stepup.core.nglob import NamedGlob

    cwd = os.getcwd()
    os.chdir(world.root)
    try:
        ng = NamedGlob(pattern, dict(subs))
        ng.glob()
        return sorted(str(p) for p in ng.files() if not str(p).startswith(".stepup"))
    finally:
        os.chdir(cwd)


def scan(world, pattern):
    cwd = os.getcwd()
    os.chdir(world.root)
    try:
        out = []
        for p in stdglob.glob(pattern, recursive=True, include_hidden=True):
            if p.startswith(".stepup"):
                continue
            out.append(p.rstrip("/") + "/" if os.path.isdir(p) else p)
        return sorted(out)
    finally:
        os.chdir(cwd)


def _fire_payload(self, gate, payload):
    self.nev += 1
    self.trace.append(f"{gate.label()}<-{payload[0]}")
    if gate in self.gates:
        self.gates.remove(gate)
    self.last_thread = gate.thread
    gate.fut.set_result(payload)


Sim.fire_payload = _fire_payload


# ------------------------------------------------------------------------------------------
# Breadth-first search
# ------------------------------------------------------------------------------------------


def bfs(machine, roots, depth, visit, max_states=None, event_filter=None):
    """Explore from each root event list; `visit(events, state)` once per distinct state.

    Returns (states, transitions, truncated, closed_depth).
    """
    seen = set()
    frontier = []
    ntrans = 0
    for root in roots:
        st = machine.replay(root)
        ntrans += 1
        if st["key"] not in seen:
            seen.add(st["key"])
            visit(root, st)
            frontier.append((root, st["enabled"]))
    closed = 0
    for level in range(depth):
        nxt = []
        for events, enabled in frontier:
            for ev in enabled:
                if event_filter is not None and not event_filter(events, ev):
                    continue
                new = [*events, ev]
                st = machine.replay(new)
                ntrans += 1
                if st["key"] in seen:
                    continue
                seen.add(st["key"])
                visit(new, st)
                nxt.append((new, st["enabled"]))
                if max_states is not None and len(seen) >= max_states:
                    return len(seen), ntrans, True, closed
        frontier = nxt
        closed = level + 1
        if not frontier:
            break
    return len(seen), ntrans, False, closed


def split_frontier(machine, root, levels):
    """Distinct states `levels` events below `root`, as event lists: roots for parallel searches
    (states met on the way are returned too, with the depth that is left for them)."""
    out = []
    seen = set()
    st = machine.replay(root)
    seen.add(st["key"])
    frontier = [(root, st["enabled"])]
    out.append((root, 0))
    for level in range(levels):
        nxt = []
        for events, enabled in frontier:
            for ev in enabled:
                new = [*events, ev]
                st = machine.replay(new)
                if st["key"] in seen:
                    continue
                seen.add(st["key"])
                nxt.append((new, st["enabled"]))
        frontier = nxt
    return [events for events, _ in frontier]
