"""Project families: finite knob vectors -> {path: content} (DESIGN.md appendix A)."""

import itertools

from .harness import script


def tr(tag, inps, outs, **kw):
    cmd = f"tr {tag} {' '.join(inps)} -- {' '.join(outs)}".replace("  ", " ")
    opts = {"inp": list(inps), "out": list(outs)}
    opts.update(kw)
    return ["step", cmd, opts]


def product(**domains):
    names = list(domains)
    for values in itertools.product(*(domains[n] for n in names)):
        yield dict(zip(names, values, strict=True))


# -- F-chain ---------------------------------------------------------------------------------

CHAIN_DEFAULT = {
    "a_tag": 1, "b": 1, "b_need": "DEFAULT", "b_out": "b.txt", "c": 1, "src": "x", "src_exists": 1,
}


def f_chain(**knobs):
    k = dict(CHAIN_DEFAULT)
    k.update(knobs)
    prog = [["static", "src.txt"], tr(f"A{k['a_tag']}", ["src.txt"], ["a.txt"])]
    if k["b"]:
        prog.append(tr("B", ["a.txt"], [k["b_out"]], need=k["b_need"]))
    if k["c"] == 1:
        prog.append(tr("C", [k["b_out"]], ["c.txt"]))
    elif k["c"] == 2:
        prog.append(["step", "false", {"inp": [k["b_out"]], "out": ["c.txt"]}])
    if k.get("b_static"):
        prog.append(["static", "b.txt"])
    if k.get("f"):
        # an independent step that fails, declared last: the steps before it are re-validated
        # first, then the build drains before anything runs again
        prog.append(["step", "false", {"out": ["f.txt"]}])
    files = {"plan.py": script(prog)}
    if k.get("b_static"):
        files["b.txt"] = "user provided b\n"
    if k["src_exists"]:
        files["src.txt"] = f"source {k['src']}\n"
    return files


# -- F-subplan: two sub-plans that reference the same paths -------------------------------------

def f_twoplans(kind):
    """Two planning scripts run concurrently; `kind` selects what they share."""
    root = [["static", "p1.py", "p2.py"], ["plan", "./p1.py"], ["plan", "./p2.py"]]
    files = {}
    if kind == "static_vs_input":
        p1 = [["static", "x.txt"]]
        p2 = [tr("U", ["x.txt"], ["u.txt"])]
        files["x.txt"] = "x\n"
    elif kind == "tree_vs_input":
        p1 = [["static", "d/"]]
        p2 = [tr("U", ["d/e.txt"], ["u.txt"])]
        files["d/e.txt"] = "e\n"
    elif kind == "tree_vs_static_conflict":
        p1 = [["static", "d/"]]
        p2 = [["static", "d/e.txt"]]
        files["d/e.txt"] = "e\n"
    elif kind == "both_glob":
        p1 = [["static", "data/*.txt"]]
        p2 = [["glob", "data/${*n}.txt", {}, [tr("G", ["data/{n}.txt"], ["out/{n}.out"])]]]
        files["data/a.txt"] = "a\n"
        files["data/b.txt"] = "b\n"
    elif kind == "output_conflict":
        p1 = [tr("P", [], ["o.txt"])]
        p2 = [tr("Q", [], ["o.txt"])]
    elif kind == "static_vs_output_conflict":
        p1 = [["static", "x.txt"]]
        p2 = [tr("Q", [], ["x.txt"])]
        files["x.txt"] = "x\n"
    elif kind == "producer_consumer":
        p1 = [tr("P", [], ["o.txt"])]
        p2 = [tr("Q", ["o.txt"], ["q.txt"])]
    elif kind == "glob_vs_output_conflict":
        p1 = [["glob", "out/*.txt", {}]]
        p2 = [tr("Q", [], ["out/o.txt"])]
        files["out/"] = ""
    else:
        raise ValueError(kind)
    files.update({"plan.py": script(root), "p1.py": script(p1), "p2.py": script(p2)})
    return files


TWOPLAN_KINDS = (
    "static_vs_input", "tree_vs_input", "tree_vs_static_conflict", "both_glob",
    "output_conflict", "static_vs_output_conflict", "producer_consumer",
    "glob_vs_output_conflict",
)


def f_subplan(sub=1, where="sub", inputs="explicit"):
    """Root plan with a sub-plan in `sub/`, a step S with workdir `sub`."""
    s_step = ["step", "tr S data/in.txt -- out/s.txt",
              {"inp": ["data/in.txt"], "out": ["out/s.txt"]}]
    root = []
    files = {"sub/data/in.txt": "in\n"}
    if inputs == "tree":
        root.append(["static", "sub/"])
    else:
        root.append(["static", "sub/plan.py", "sub/data/in.txt"] if sub else ["static", "sub/data/in.txt"])
    if where == "root":
        st = ["step", "tr S data/in.txt -- out/s.txt",
              {"inp": ["data/in.txt"], "out": ["out/s.txt"], "workdir": "sub"}]
        root.append(st)
    if sub:
        root.append(["plan", "./plan.py", {"workdir": "sub"}])
        files["sub/plan.py"] = script([s_step] if where == "sub" else [])
    files["plan.py"] = script(root)
    return files


# -- F-amend -----------------------------------------------------------------------------------

def f_amend(version="inp", extra="static", order="amend_first", how="amend"):
    """W: ./w.py amends extra.txt, reads it and writes w.out.
    how="declared": the plan declares extra.txt as an input of W and the script only reads it (a
    dependency that moved from the script to the plan)."""
    w = []
    if how == "declared" and version != "none" and extra != "tree":
        w = [["read", "extra.txt"], ["write", "w.out", ["extra.txt"]]]
        if version == "inp_out":
            w = [["amend", {"out": ["side.txt"]}], *w, ["write", "side.txt", []]]
    elif version == "none":
        w = [["write", "w.out", []]]
    else:
        am = {"inp": ["extra.txt"]}
        if version == "inp_out":
            am["out"] = ["side.txt"]
        acts = [["amend", am], ["read", "extra.txt"]]
        if order == "read_first":
            # a script that copes with a missing file, announces it afterwards and reads again
            acts = [["tryread", "extra.txt"], ["amend", am], ["read", "extra.txt"]]
        w = [*acts, ["write", "w.out", ["extra.txt"]]]
        if version == "inp_out":
            w.append(["write", "side.txt", []])
    root = [["static", "w.py"]]
    files = {}
    if extra == "static":
        root.append(["static", "extra.txt"])
        files["extra.txt"] = "extra\n"
    elif extra == "built":
        root.append(tr("X", [], ["extra.txt"]))
    elif extra == "optional":
        # the producer of the amended input is optional: it is needed only while W amends it
        root.append(tr("X", [], ["extra.txt"], need="OPTIONAL"))
    elif extra == "tree":
        return {
            "plan.py": script([["static", "w.py", "t/"], ["run", "./w.py", {"out": ["w.out"]}]]),
            "w.py": script([["amend", {"inp": ["t/extra.txt"]}], ["read", "t/extra.txt"],
                            ["write", "w.out", ["t/extra.txt"]]]),
            "t/extra.txt": "extra\n",
        }
    elif extra == "absent":
        pass
    kw = {"out": ["w.out"]}
    if how == "declared" and version != "none":
        kw["inp"] = ["extra.txt"]
    root.append(["run", "./w.py", kw])
    files.update({"plan.py": script(root), "w.py": script(w)})
    return files


# -- F-resource --------------------------------------------------------------------------------

def f_resource(demands=("cpu:1", "cpu:2", "cpu:1")):
    prog = []
    for i, dem in enumerate(demands):
        res = {}
        if dem:
            name, units = dem.split(":")
            res = {name: int(units)}
        prog.append(tr(f"R{i}", [], [f"r{i}.txt"], resources=res))
    return {"plan.py": script(prog)}


# -- F-selfprod (suspected defects 4 and 6) ------------------------------------------------------

def f_selfprod(sub=1):
    root = [["static", "sub.py", "inp.txt"]]
    if sub:
        root.append(["plan", "./sub.py"])
    sub_prog = [["step", "cp inp.txt o.txt", {"inp": ["inp.txt"], "out": ["o.txt"]}],
                ["amend", {"inp": ["o.txt"]}]]
    return {"plan.py": script(root), "sub.py": script(sub_prog), "inp.txt": "inp\n"}


# -- F-hold ------------------------------------------------------------------------------------

def f_hold(nesting=2, fail=0, outside=1, v=1, sub=0, durations=(1.0, 1.0, 1.0)):
    d1, d2, d3 = durations
    inner = [tr("H1", [], ["h1.txt"], duration=d1)]
    if nesting >= 2:
        inner.append(["hold", [tr("H2", [], ["h2.txt"], duration=d2)]])
    inner.append(tr("H3", ["h1.txt"], ["h3.txt"], duration=d3))
    if fail:
        inner.append(["exit", 1])
    prog = [["hold", inner]]
    if outside:
        prog.append(tr("H4", [], ["h4.txt"]))
    if sub:
        return {
            "plan.py": script([["static", "sub.py"], ["plan", "./sub.py"], tr("T", [], ["t.txt"])], v=v),
            "sub.py": script(prog, v=v),
        }
    return {"plan.py": script(prog, v=v)}


def f_holdlate(lead=1):
    """The plan defines X and S1, later (after `lead` idle actions) holds dispatch for S2. With all
    job slots busy S1 is still pending when the hold arrives."""
    return {
        "unused.txt": "u\n",
        "x.py": script([["write", "x.out", []]]),
        "plan.py": script([["static", "unused.txt", "x.py"],
                           ["run", "./x.py", {"out": ["x.out"]}],
                           tr("S1", [], ["s1.txt"]),
                           *([["nop"]] * lead),
                           ["hold", [tr("S2", [], ["s2.txt"]), ["nop"]]],
                           ["nop"]]),
    }


def f_resmix(demands, durations=None):
    prog = []
    for i, dem in enumerate(demands):
        res = {}
        for part in dem.split(",") if dem else []:
            name, units = part.split(":")
            res[name] = int(units)
        kw = {"resources": res}
        if durations:
            kw["duration"] = durations[i]
        prog.append(tr(f"R{i}", [], [f"r{i}.txt"], **kw))
    return {"plan.py": script(prog)}


def f_resdetached(kind="fail", slow_len=4):
    """Step A holds a limited resource while its creator p1 fails (kind=fail, needs keep-going) or
    is deferred and re-executed (kind=defer): A is detached but still running. Step B of another
    planning script needs the same resource."""
    a = [["write_partial", "a.out"]] + [["nop"]] * (slow_len - 2) + [["write", "a.out", []]]
    p1 = [["run", "./a.py", {"out": ["a.out"], "resources": {"gpu": 1}}]]
    files = {"a.py": script(a), "b.py": script([["write", "b.out", []]]), "src.txt": "s\n"}
    statics = ["static", "a.py", "b.py", "p1.py", "p2.py", "src.txt"]
    root = [statics, ["plan", "./p1.py"], ["plan", "./p2.py"]]
    if kind == "fail":
        p1.append(["exit", 1])
    elif kind == "defer_changed":
        # like defer, but the second execution of p1 (g.txt exists by then) declares ./a.py with
        # another signature (an extra input) while the command of the first declaration runs
        p1 = [["ifexists", "g.txt",
               ["run", "./a.py", {"inp": ["src.txt"], "out": ["a.out"], "resources": {"gpu": 1}}],
               ["run", "./a.py", {"out": ["a.out"], "resources": {"gpu": 1}}]],
              ["amend", {"inp": ["g.txt"]}], ["read", "g.txt"]]
        statics.append("p3.py")
        root.append(["plan", "./p3.py"])
        files["p3.py"] = script([tr("G", ["src.txt"], ["g.txt"])])
    else:
        p1 += [["amend", {"inp": ["g.txt"]}], ["read", "g.txt"]]
        statics.append("p3.py")
        root.append(["plan", "./p3.py"])
        files["p3.py"] = script([tr("G", ["src.txt"], ["g.txt"])])
    files["p1.py"] = script(p1)
    files["p2.py"] = script([["nop"], ["run", "./b.py", {"out": ["b.out"], "resources": {"gpu": 1}}]])
    files["plan.py"] = script(root)
    return files


# -- F-prodcons (C03) --------------------------------------------------------------------------

def f_prodcons(consumer="amend_first", producer_by="plan", declared=0, tree=0, late=0, pv=1, cv=1):
    """P writes o.txt in two actions from src.txt; C uses o.txt (amended or declared).
    tree=1: C's amendment also names t/x.txt under the static tree t/ (plan-defined producer only).
    late=1: the plan declares C first and P only after two idle actions (so C may already run
    when P is (re-)declared); pv is an argument of P's command (another pv is another step with
    another result, the script itself is unchanged), cv the version of C's script."""
    p_prog = [["write_partial", "o.txt"], ["write", "o.txt", ["src.txt"], "@argv"]]
    if consumer == "amend_first":
        c_prog = [["amend", {"inp": ["o.txt"]}], ["read", "o.txt"], ["write", "c.out", ["o.txt"]]]
    elif consumer == "read_first":
        c_prog = [["tryread", "o.txt"], ["amend", {"inp": ["o.txt"]}], ["read", "o.txt"],
                  ["write", "c.out", ["o.txt"]]]
    else:
        c_prog = [["read", "o.txt"], ["write", "c.out", ["o.txt"]]]
    if tree:
        # the same amendment also names a file under a static tree: it is UNCONFIRMED until its
        # hash job is done, and the request waits for that job between two transactions
        for act in c_prog:
            if act[0] == "amend":
                act[1]["inp"] = [*act[1]["inp"], "t/x.txt"]
    files = {"src.txt": "src\n", "p.py": script(p_prog), "c.py": script(c_prog, v=cv)}
    if tree:
        files["t/x.txt"] = "x\n"
    p_step = ["run", "./p.py" if pv == 1 else f"./p.py {pv}", {"inp": ["src.txt"], "out": ["o.txt"]}]
    if late == 2:
        # a producer without any input: nothing re-confirms it when the plan runs again, so the
        # old incarnation stays SUCCEEDED/BUILT while it is detached
        p_step = tr(f"P{pv}", [], ["o.txt"])
    c_kw = {"out": ["c.out"]}
    if declared:
        c_kw["inp"] = ["o.txt"]
    c_step = ["run", "./c.py", c_kw]
    if producer_by == "plan":
        root = [["static", "src.txt", "p.py", "c.py", *(["t/"] if tree else [])],
                *([c_step, ["nop"], ["nop"], p_step] if late else [c_step, p_step])]
    else:
        root = [["static", "src.txt", "p.py", "c.py", "plan2.py"], c_step, ["plan", "./plan2.py"]]
        files["plan2.py"] = script([p_step])
    files["plan.py"] = script(root)
    return files


def f_prodcons4():
    """Four overlapping steps: C reads o.txt and amends it late, P produces it, X is a declared
    consumer (so it starts after P stopped), Z is unrelated and stops in between. The stop time of
    P must survive until C's amend is judged (Scheduler.record_run_stopped pruning)."""
    files = {
        "src.txt": "src\n",
        "p.py": script([["write_partial", "o.txt"], ["write", "o.txt", ["src.txt"]]]),
        # C keeps what it read before the amendment: a stale read shows in c.out
        "c.py": script([["stash", "o.txt"], ["amend", {"inp": ["o.txt"]}], ["write_stash", "c.out"]]),
        "z.py": script([["write", "z.out", []]]),
    }
    files["plan.py"] = script([
        ["static", "src.txt", "p.py", "c.py", "z.py"],
        ["run", "./c.py", {"out": ["c.out"]}],
        ["run", "./p.py", {"inp": ["src.txt"], "out": ["o.txt"]}],
        ["run", "./z.py", {"out": ["z.out"]}],
        tr("X", ["o.txt"], ["x.txt"]),
    ])
    return files


def f_deferplan(slow_len=6, selfprod=0, chain=0):
    """A planning script defines a slow step, then amends an input that is not built yet: it is
    deferred and runs again (reset_for_rerun detaches the slow step, define_step re-attaches it)
    while the slow step may still be running. The awaited input is produced by a step of another
    planning script (selfprod=1: by a step of the same script, the shape of the known
    deferred-creator findings)."""
    slow = [["write_partial", "slow.txt"]] + [["nop"]] * (slow_len - 2) + [["write", "slow.txt", []]]
    gen = tr("G", ["src.txt"], ["g.txt"])
    p2 = [["run", "./slow.py", {"out": ["slow.txt"]}]]
    if chain:
        # the slow step consumes the output of a step of the same script: when the script runs
        # again both are detached, and the slow step may complete before they are re-declared
        slow = [["write_partial", "slow.txt"]] + [["nop"]] * (slow_len - 2) + [["write", "slow.txt", ["q.txt"]]]
        p2 = [tr("Q", [], ["q.txt"]), ["run", "./slow.py", {"inp": ["q.txt"], "out": ["slow.txt"]}]]
    if selfprod:
        p2.append(gen)
    p2 += [["amend", {"inp": ["g.txt"]}], ["read", "g.txt"], ["write", "p2.out", ["g.txt"]]]
    files = {
        "src.txt": "src\n",
        "slow.py": script(slow),
        "p2.py": script(p2),
        "plan.py": script([["static", "src.txt", "slow.py", "p1.py", "p2.py"],
                           ["plan", "./p2.py", {"out": ["p2.out"]}], ["plan", "./p1.py"]]),
        "p1.py": script([] if selfprod else [gen]),
    }
    return files


def f_deferwin(lead=1):
    """p2.py defines the producer Q and is then deferred once (it amends g.txt, which a step of
    p1.py builds); when it runs again, Q and q.txt are detached until p2.py re-defines Q. w.py, a
    step of the root plan, amends q.txt after `lead` idle actions: the amendment may fall into
    that window. Every schedule must end with the same successful result."""
    return {
        "src.txt": "src\n",
        "p1.py": script([tr("G", ["src.txt"], ["g.txt"])]),
        "p2.py": script([tr("Q", [], ["q.txt"]), ["amend", {"inp": ["g.txt"]}], ["read", "g.txt"],
                         ["write", "p2.out", ["g.txt"]]]),
        "w.py": script([*([["nop"]] * lead), ["amend", {"inp": ["q.txt"]}], ["read", "q.txt"],
                        ["write", "w.out", ["q.txt"]]]),
        "plan.py": script([["static", "src.txt", "p1.py", "p2.py", "w.py"],
                           ["plan", "./p2.py", {"out": ["p2.out"]}], ["plan", "./p1.py"],
                           ["run", "./w.py", {"out": ["w.out"]}]]),
    }


def f_outamend(lead=0, wv=1, src="x"):
    """K declares src.txt as input but writes a constant: after an edit of src.txt it runs again
    and reproduces k.txt byte for byte (OUTDATED -> BUILT without a new hash). W amends k.txt at
    run time, after `lead` idle actions: the amendment may arrive while K is running again."""
    return {
        "src.txt": f"source {src}\n",
        # the first version of W does not use k.txt at all, so no dynamic edge exists before
        "w.py": script([["write", "w.out", []]] if wv == 1 else
                       [*([["nop"]] * lead), ["amend", {"inp": ["k.txt"]}], ["read", "k.txt"],
                        ["write", "w.out", ["k.txt"]]], v=wv),
        "plan.py": script([["static", "src.txt", "w.py"],
                           ["step", "tr K -- k.txt", {"inp": ["src.txt"], "out": ["k.txt"]}],
                           ["run", "./w.py", {"out": ["w.out"]}]]),
    }


def f_treeamend():
    """C amends a file under a static tree (UNCONFIRMED path, promoted hash jobs)."""
    return {
        "plan.py": script([["static", "c.py", "c2.py", "t/"],
                           ["run", "./c.py", {"out": ["c.out"]}],
                           ["run", "./c2.py", {"out": ["c2.out"]}]]),
        "c.py": script([["amend", {"inp": ["t/x.txt"]}], ["read", "t/x.txt"], ["write", "c.out", ["t/x.txt"]]]),
        "c2.py": script([["amend", {"inp": ["t/x.txt", "t/none.txt"]}], ["write", "c2.out", []]]),
        "t/x.txt": "x\n",
    }


# -- more families for the history checks (C01, C04, C06, C07) -------------------------------------

def f_glob(present=("a", "b"), mode="tree", subs="none", cfg=0, nest=0, deep=0, broken=0, mid=0):
    """One step per file matching data/${*n}.txt; the matches are static by tree or by pattern.
    subs="ab" restricts the named wildcard to [ab]: data/zz.txt then matches the default pattern
    of the wildcard but not the glob. cfg=1: the globbing is done by a sub-plan g.py that also
    has a static input cfg.txt (so it can be pending for a reason of its own)."""
    if mode == "multi":
        # a wildcard for a whole directory level: data/<n>/inp.txt inside the static tree data/
        files = {f"data/{n}/inp.txt": f"data {n}\n" for n in present}
        body = [tr("G", ["data/{n}/inp.txt"], ["out/{n}.out"])]
        files["plan.py"] = script([["static", "data/"], ["glob", "data/${*n}/inp.txt", {}, body]])
        return files
    if deep:
        # the matched files live three levels down inside a static tree and are only listed: no
        # step uses them as input, so they are recorded as matches of the pattern and nowhere else
        files = {f"src/pkg/mod/{n}.txt": f"data {n}\n" for n in present}
        body = [tr("G", [], ["out/{n}.out"])]
        files["plan.py"] = script([["static", "src/"], ["glob", "src/pkg/mod/${*n}.txt", {}, body]])
        return files
    if nest:
        # the matched files live two levels down, and neither level exists at the start
        body = [tr("G", ["data/raw/{n}.txt"], ["out/{n}.out"])]
        return {"plan.py": script([["static", "data/raw/*.txt"], ["glob", "data/raw/${*n}.txt", {}, body]])}
    files = {f"data/{n}.txt": f"data {n}\n" for n in present}
    files["data/"] = ""
    body = [tr("G", ["data/{n}.txt"], ["out/{n}.out"])]
    decl = ["static", "data/"] if mode == "tree" else ["static", "data/*.txt"]
    if mode == "names":
        # every present file is declared static by name: its node stays (MISSING) when the file
        # is deleted, whatever the glob of another step records
        decl = ["static", *[f"data/{n}.txt" for n in present]]
    globbing = ["glob", "data/${*n}.txt", {} if subs == "none" else {"n": "[ab]"}, body]
    if cfg:
        files["cfg.txt"] = "cfg\n"
        files["g.py"] = script([["read", "cfg.txt"], globbing])
        # broken=1: the plan fails before it gets to define the globbing sub-plan
        tail = [["exit", 1]] if broken else [["plan", "./g.py", {"inp": ["cfg.txt"]}]]
        statics = ["static", "cfg.txt", "g.py"]
        if mid:
            # one more creator level: the plan starts mid.py, which starts the globbing g.py
            files["mid.py"] = script([["plan", "./g.py", {"inp": ["cfg.txt"]}]])
            statics.append("mid.py")
            tail = [["exit", 1]] if broken else [["plan", "./mid.py"]]
        files["plan.py"] = script([decl, statics, *tail])
    else:
        files["plan.py"] = script([decl, globbing])
    return files


def f_env(value=None, how="declared", v=1, ovr="none"):
    """E: ./e.py depends on VERIF_X, declared with env= or amended at run time; `ovr` gives the step
    an environment override of VERIF_Y (none, or one of two values), written to e2.out."""
    kw = {"out": ["e.out", "e2.out"]}
    # run() takes overrides as leading VAR=value assignments of the command
    cmd = "./e.py" if ovr == "none" else f"VERIF_Y={ovr} ./e.py"
    tail = [["write", "e.out", [], "$VERIF_X"], ["write", "e2.out", [], "$VERIF_Y"]]
    if how == "declared":
        kw["env"] = ["VERIF_X"]
        e = tail
    else:
        e = [["amend", {"env": ["VERIF_X"]}], *tail]
    root = [["static", "e.py"], ["run", cmd, kw]]
    return {"plan.py": script(root, v=v), "e.py": script(e)}


def f_vol(outdir="out/deep", log="vol", workdir=".", present=1, adopt="none", logdir="out", broken=0):
    """V: a step with a nested output directory, a volatile log and a working directory.
    logdir: where the log goes; with out/logs the two outputs live in sibling directories whose
    common parent out/ holds no output itself.
    adopt: once the step is dropped (present=0) the plan declares its former outputs static,
    as a tree (out/) or as a file (out/log.txt): the user keeps them as sources."""
    prog = [["static", "src.txt"]]
    if broken:
        # the plan fails before it defines anything else
        return {"plan.py": script([*prog, ["exit", 1]]), "src.txt": "src\n"}
    if not present and adopt == "tree":
        prog.append(["static", "out/"])
    elif not present and adopt == "file":
        prog.append(["static", f"{logdir}/log.txt"])
    if present:
        kw = {"inp": ["src.txt"], "out": [f"{outdir}/o.txt"]}
        if log == "vol":
            kw["vol"] = [f"{logdir}/log.txt"]
        elif log == "out":
            kw["out"].append(f"{logdir}/log.txt")
        outs = kw["out"] + kw.get("vol", [])
        cmd = f"tr V src.txt -- {' '.join(outs)}"
        if workdir != ".":
            # paths of the step are relative to its working directory
            up = "/".join([".."] * len(workdir.split("/")))
            kw = {"inp": [f"{up}/src.txt"], "out": [f"{up}/{p}" for p in kw["out"]],
                  **({"vol": [f"{up}/{p}" for p in kw["vol"]]} if "vol" in kw else {}),
                  "workdir": workdir}
            outs = kw["out"] + kw.get("vol", [])
            cmd = f"tr V {up}/src.txt -- {' '.join(outs)}"
        prog.append(["step", cmd, kw])
    return {"plan.py": script(prog), "src.txt": "src\n"}


def f_redefine(inp=("src.txt",), out=("r.txt",), decl=1):
    """R: the same command text with a varying signature (partial recycle path).
    decl=0: the plan no longer declares src.txt static (an input of R that nothing declares)."""
    # without the declaration the step is also given another argument: a new step, which supplies
    # its inputs afresh (an unchanged step would be recycled with its old edges)
    prog = [["static", "src.txt", "src2.txt"] if decl else ["static", "src2.txt"],
            ["step", "./r.py" if decl else "./r.py nodecl", {"inp": ["r.py", *inp], "out": list(out)}],
            ["static", "r.py"]]
    r = [["write", o, list(inp)] for o in out]
    if "r.txt" in out:
        prog.append(tr("U", ["r.txt"], ["u.txt"]))
    return {"plan.py": script(prog), "r.py": script(r), "src.txt": "1\n", "src2.txt": "2\n"}


def f_optional(u=1, o2_need="OPTIONAL", src="x", usub=0):
    """O1 (optional) -> O2 (optional/default) -> U (default); U may be defined by a sub-plan."""
    prog = [["static", "src.txt"],
            tr("O1", ["src.txt"], ["o1.txt"], need="OPTIONAL"),
            tr("O2", ["o1.txt"], ["out/o2.txt"], need=o2_need)]
    files = {"src.txt": f"src {src}\n"}
    if usub:
        prog.insert(0, ["static", "sub.py"])
        prog.append(["plan", "./sub.py"])
        files["sub.py"] = script([tr("U", ["out/o2.txt"], ["u.txt"])] if u else [])
    elif u:
        prog.append(tr("U", ["out/o2.txt"], ["u.txt"]))
    files["plan.py"] = script(prog)
    return files


def f_dynout(target="dyn1", consumer="none", sub=0):
    """gen.py announces its output at run time (amend out=...); a second planning script, which
    runs after gen.py, may define an optional step that uses a (former) product of gen.py as
    input. Changing `target` orphans the old product; `consumer` keeps it alive as a supplied
    input of a new step."""
    d = "sub/" if sub else ""
    gen = [["amend", {"out": [f"{d}{target}.txt"]}], ["write", f"{d}{target}.txt", []],
           ["write", "gen.log", [], target]]
    p2 = []
    if consumer != "none":
        p2.append(tr("K", [f"{d}{consumer}.txt"], ["copy.txt"], need="OPTIONAL"))
    return {
        "gen.py": script(gen),
        "plan2.py": script(p2),
        "plan.py": script([["static", "gen.py", "plan2.py"],
                           ["run", "./gen.py", {"out": ["gen.log"]}],
                           ["plan", "./plan2.py", {"inp": ["gen.log"]}]]),
    }


def f_nested(deep=1, v=1, p_need="OPTIONAL", src="src", pcopy=0):
    """Three creation levels: the root plan defines the optional producer P and runs sub.py, sub.py
    runs deep.py, deep.py defines the only consumer of P's output. Dropping deep.py from sub.py
    makes P unneeded although the plan that owns P does not run again."""
    pstep = tr("P", ["src.txt"], ["p.txt"], need=p_need)
    if pcopy:
        # P copies its input, so a bad source ("!fail") makes the consumer C fail
        pstep = ["step", "cp src.txt p.txt", {"inp": ["src.txt"], "out": ["p.txt"], "need": p_need}]
    return {
        "src.txt": f"{src}\n",
        "plan.py": script([["static", "src.txt", "sub.py", "deep.py"], pstep, ["plan", "./sub.py"]], v=v),
        "sub.py": script([["plan", "./deep.py"]] if deep else []),
        "deep.py": script([tr("C", ["p.txt"], ["c.txt"])]),
    }


def f_cutoff(multi=0, src="x", v=1):
    """Early cut-off: K declares src.txt as input but writes a constant, so an edit of src.txt
    reruns K with an identical k.txt; B and C behind it must be skipped. With multi=1 the last
    step is a two-line shell command (a command with a control character)."""
    last = ["step", "tr C b.txt -- c.txt\ntr D b.txt -- d.txt" if multi else "tr C b.txt -- c.txt",
            {"inp": ["b.txt"], "out": ["c.txt", "d.txt"] if multi else ["c.txt"], "shell": bool(multi)}]
    return {
        "src.txt": f"source {src}\n",
        "plan.py": script([["static", "src.txt"],
                           ["step", "tr K -- k.txt", {"inp": ["src.txt"], "out": ["k.txt"]}],
                           tr("B", ["k.txt"], ["b.txt"]), last], v=v),
    }


def f_detfinish(broken=1, slow=4, lead=0, cfg="c"):
    """A step that finishes while it is detached: sub/plan.py declares the slow ./work.py and
    (broken=1) fails after `lead` idle actions while work.py still runs. With broken=0 the
    repaired plan re-creates work.py identically. The top plan alone consumes cfg.txt."""
    root = [["static", "cfg.txt", "shared.txt", "sub/plan.py", "sub/work.py"],
            ["amend", {"inp": ["cfg.txt"]}], ["read", "cfg.txt"],
            ["plan", "./plan.py", {"workdir": "sub"}]]
    sub = [["run", "./work.py", {"inp": ["../shared.txt"], "out": ["out.txt"]}]]
    if broken:
        sub += [["nop"]] * lead + [["exit", 1]]
    work = [["write_partial", "out.txt"]] + [["nop"]] * slow + [["write", "out.txt", ["../shared.txt"]]]
    return {"plan.py": script(root), "cfg.txt": cfg + "\n", "shared.txt": "shared\n",
            "sub/plan.py": script(sub), "sub/work.py": script(work)}


def f_planuse(use=1, chain=2, src="x", psrc="c", need="OPTIONAL"):
    """A chain of steps (A: src -> a.txt, M: a.txt -> m.txt; optional, or of default need) whose
    only consumer is a planning step: ./sub.py amends the end of the chain while use=1. Edits of
    use only touch sub.py, so the plan that declares the chain is skipped when the consumer goes
    away. I is an independent step (a target that requires nothing of the chain)."""
    last = "m.txt" if chain == 2 else "a.txt"
    root = [["static", "src.txt", "sub.py", "cfg.txt"],
            tr("A", ["src.txt"], ["a.txt"], need=need)]
    if chain == 2:
        root.append(tr("M", ["a.txt"], ["m.txt"], need=need))
    root.append(tr("I", ["cfg.txt"], ["i.txt"]))
    root.append(["plan", "./sub.py", {"inp": ["cfg.txt"]}])
    sub = [["amend", {"inp": [last]}], ["read", last]] if use else [["read", "cfg.txt"]]
    return {"plan.py": script(root), "sub.py": script(sub), "src.txt": src + "\n", "cfg.txt": psrc + "\n"}


def f_failwrite(fail=0, present=1, src="x", outdir=".", need="DEFAULT", consumer=0):
    """W: ./w.py writes w.out from src.txt; with fail=1 it writes other content and then fails.
    present=0: the plan no longer defines W. need=OPTIONAL with consumer=1: W is optional and
    needed only by the step C that copies its output."""
    out = "w.out" if outdir == "." else f"{outdir}/w.out"
    w = [["write", out, ["src.txt"], "failing"], ["exit", 1]] if fail else [["write", out, ["src.txt"]]]
    root = [["static", "src.txt", "w.py"]]
    if present:
        root.append(["run", "./w.py", {"inp": ["src.txt"], "out": [out], "optional": need == "OPTIONAL"}])
        if consumer:
            root.append(tr("C", [out], ["c.out"]))
    return {"plan.py": script(root), "w.py": script(w), "src.txt": src + "\n"}


def f_scratch(stage=1):
    """V declares a volatile scratch file that its command never leaves behind. stage 2: the plan
    no longer mentions the scratch file. stage 3: another step builds a regular output at the
    very same path."""
    kw = {"inp": ["src.txt"], "out": ["o.txt"]}
    if stage == 1:
        kw["vol"] = ["scratch.dat"]
    root = [["static", "src.txt", "v.py"], ["run", "./v.py", kw]]
    if stage == 3:
        root.append(tr("B", ["src.txt"], ["scratch.dat"]))
    return {"plan.py": script(root), "v.py": script([["write", "o.txt", ["src.txt"]]]), "src.txt": "src\n"}


def f_latestatic(gap=1, cfg="c"):
    """The top plan consumes cfg.txt (amended), starts a sub-plan and only afterwards declares the
    static file late.txt, which a step of the sub-plan (./work.py) amends. An edit of cfg.txt
    reruns the top plan only: neither the sub-plan nor work.py consumes it."""
    root = [["static", "cfg.txt", "sub/plan.py", "sub/work.py"],
            ["amend", {"inp": ["cfg.txt"]}], ["read", "cfg.txt"],
            ["plan", "./plan.py", {"workdir": "sub"}]]
    root += [["static", f"pad{i}.txt"] for i in range(gap)]
    root.append(["static", "late.txt"])
    files = {
        "plan.py": script(root),
        "cfg.txt": cfg + "\n",
        "late.txt": "late\n",
        "sub/plan.py": script([["run", "./work.py", {"out": ["w.out"]}]]),
        "sub/work.py": script([["amend", {"inp": ["../late.txt"]}], ["read", "../late.txt"],
                               ["write", "w.out", ["../late.txt"]]]),
    }
    for i in range(gap):
        files[f"pad{i}.txt"] = "pad\n"
    return files


DOMAINS = {
    "f_chain": {"a_tag": (1, 2), "b": (1, 0), "b_need": ("DEFAULT", "OPTIONAL"),
                "b_out": ("b.txt", "b2.txt"), "c": (1, 0), "src": ("x", "y"), "src_exists": (1, 0)},
    "f_subplan": {"sub": (1, 0), "where": ("sub", "root"), "inputs": ("explicit", "tree")},
    "f_glob": {"present": (("a", "b"), ("a",), ("a", "b", "c"), (), ("a", "zz")), "mode": ("tree", "pattern"),
               "subs": ("none", "ab"), "broken": (0, 1)},
    "f_amend": {"version": ("inp", "none", "inp_out"), "extra": ("static", "built", "absent", "optional"),
                "order": ("amend_first", "read_first"), "how": ("amend", "declared")},
    "f_env": {"how": ("declared", "amended"), "v": (1, 2), "ovr": ("none", "o", "p")},
    "f_vol": {"outdir": ("out/deep", "out2"), "log": ("vol", "out", "none"),
              "workdir": (".", "wd", "wd/in"), "present": (1, 0), "adopt": ("none", "tree", "file"),
              "logdir": ("out", "out/logs")},
    "f_redefine": {"inp": (("src.txt",), (), ("src.txt", "src2.txt")), "out": (("r.txt",), ("r.txt", "r2.txt")),
                   "decl": (1, 0)},
    "f_optional": {"u": (1, 0), "o2_need": ("OPTIONAL", "DEFAULT"), "src": ("x", "y", "!fail")},
    "f_selfprod": {"sub": (1, 0)},
    "f_cutoff": {"multi": (0, 1), "src": ("x", "y"), "v": (1, 2)},
    "f_nested": {"deep": (1, 0), "v": (1, 2), "p_need": ("OPTIONAL", "DEFAULT")},
    "f_dynout": {"target": ("dyn1", "dyn2"), "consumer": ("none", "dyn1", "dyn2"), "sub": (0, 1)},
    "f_hold": {"nesting": (2, 1), "v": (1, 2)},
    "f_detfinish": {"broken": (1, 0), "lead": (0, 2)},
    "f_scratch": {"stage": (1, 2, 3)},
    "f_failwrite": {"fail": (0, 1), "present": (1, 0), "src": ("x", "y"), "outdir": (".", "gen/sub"),
                    "need": ("DEFAULT", "OPTIONAL"), "consumer": (0, 1)},
    "f_planuse": {"use": (1, 0), "chain": (2, 1), "src": ("x", "y"), "psrc": ("c", "d"),
                  "need": ("OPTIONAL", "DEFAULT")},
}
ENV_DOMAIN = {"f_env": {"VERIF_X": (None, "1", "2", "")}}


# -- generated dependency graphs for C11 ---------------------------------------------------------

def f_needgraph(needs=("DEFAULT", "DEFAULT"), edges=((), ()), amended=0, subplan=0, v=1):
    """Step i writes o{i} (o0 in the root, later ones under d/) from src.txt and from the outputs
    of the earlier steps listed in edges[i]."""
    def out(i):
        return "o0.txt" if i == 0 else f"d/o{i}.txt"

    steps = []
    scripts = {}
    for i, need in enumerate(needs):
        inps = [out(j) for j in edges[i]]
        if amended and inps and i == len(needs) - 1:
            name = f"s{i}.py"
            scripts[name] = script([["amend", {"inp": inps}], ["write", out(i), ["src.txt", *inps]]])
            steps.append(["run", f"./{name}", {"inp": ["src.txt"], "out": [out(i)],
                                              "optional": need == "OPTIONAL"}])
        else:
            steps.append(tr(f"N{i}", ["src.txt", *inps], [out(i)], need=need))
    files = {"src.txt": "src\n", **scripts}
    statics = ["static", "src.txt", *sorted(scripts)]
    if subplan:
        files["plan.py"] = script([[*statics, "sub.py"], steps[0], ["plan", "./sub.py"]], v=v)
        files["sub.py"] = script(steps[1:])
    else:
        files["plan.py"] = script([statics, *steps], v=v)
    return files


# -- F-fail (C19) --------------------------------------------------------------------------------

def f_fail(kind="fail"):
    if kind == "fail":
        prog = [["static", "src.txt"], ["step", "false", {"inp": ["src.txt"], "out": ["f.txt"]}],
                tr("D", ["f.txt"], ["d.txt"]), tr("I", ["src.txt"], ["i.txt"]), tr("J", ["i.txt"], ["j.txt"])]
        return {"plan.py": script(prog), "src.txt": "s\n"}
    if kind == "missing_input":
        prog = [tr("M", ["nowhere.txt"], ["m.txt"]), tr("N", ["m.txt"], ["n.txt"]), tr("I", [], ["i.txt"])]
        return {"plan.py": script(prog)}
    if kind == "resource":
        prog = [tr("R", [], ["r.txt"], resources={"gpu": 1}), tr("S", ["r.txt"], ["s.txt"]),
                tr("T", [], ["t.txt"], resources={"cpu": 5}), tr("I", [], ["i.txt"])]
        return {"plan.py": script(prog)}
    if kind == "cycle":
        return {
            "plan.py": script([["static", "s1.py", "s2.py"],
                               ["run", "./s1.py", {"out": ["o1.txt"]}], ["run", "./s2.py", {"out": ["o2.txt"]}]]),
            "s1.py": script([["amend", {"inp": ["o2.txt"]}], ["write", "o1.txt", ["o2.txt"]]]),
            "s2.py": script([["amend", {"inp": ["o1.txt"]}], ["write", "o2.txt", ["o1.txt"]]]),
        }
    if kind == "defer_forever":
        return {
            "plan.py": script([["static", "s.py"], ["run", "./s.py", {"out": ["o.txt"]}], tr("I", [], ["i.txt"])]),
            "s.py": script([["amend", {"inp": ["never.txt"]}], ["write", "o.txt", []]]),
        }
    if kind == "plan_fails":
        return {"plan.py": script([tr("I", [], ["i.txt"]), ["exit", 3]])}
    if kind == "many_missing":
        # more dead-end inputs than the summary displays or ranks exactly: 25 independent steps,
        # each waiting for its own input that nothing declares
        return {"plan.py": script([tr(f"M{i:02d}", [f"nowhere{i:02d}.txt"], [f"m{i:02d}.txt"]) for i in range(25)])}
    if kind == "many_resources":
        return {"plan.py": script([tr(f"R{i:02d}", [], [f"r{i:02d}.txt"], resources={f"res{i:02d}": 1})
                                   for i in range(25)])}
    if kind in ("globprod1", "globprod2", "globprod2p"):
        # build 1 (globprod1): a.txt is static and a sub-plan globs *.txt; build 2 (globprod2): a.txt
        # becomes the output of a step declared before the (unchanged, recycled, skipped) sub-plan,
        # so only the end-of-build detection is left; notes.txt is an undeclared file that the same
        # pattern matches
        sub = script([["glob", "*.txt", {}]])
        if kind == "globprod1":
            root = [["static", "a.txt", "sub.py"], ["plan", "./sub.py"]]
        else:
            root = [["static", "sub.py"], tr("A", [], ["a.txt"]), ["plan", "./sub.py"]]
            if kind == "globprod2p":
                # the same, and another required step stays pending on an input nothing declares
                root.append(tr("M", ["nowhere.dat"], ["m.dat"]))
        return {"plan.py": script(root), "sub.py": sub, "a.txt": "a\n", "notes.txt": "notes\n"}
    if kind == "child_and_plan_fail":
        # the child fails, then its creator fails: the child is detached and stays FAILED
        return {"plan.py": script([["step", "false", {"out": ["f.txt"]}], tr("I", [], ["i.txt"]),
                                   ["nop"], ["nop"], ["exit", 3]])}
    if kind == "repaired":
        return {"plan.py": script([tr("I", [], ["i.txt"])], v=2)}
    raise ValueError(kind)
