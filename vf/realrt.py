"""Run-time for REAL step scripts: executes the same JSON program as the simulated launcher, but in
a real child process through the real `stepup.core.api` and the real RPC socket. Used by the
conformance replays that bind the launcher/transport substitutes to the real thing."""

import hashlib
import json
import os
import sys


STASH = []


def derive(exe, tag, out, contents):
    h = hashlib.sha256()
    h.update(repr((os.path.basename(exe), tag, os.path.basename(out))).encode())
    for c in contents:
        h.update(hashlib.sha256(c).digest())
    return ("GEN " + h.hexdigest()[:24] + "\n").encode()


def parse_program(path):
    with open(path) as fh:
        first = fh.readline().rstrip()
        second = fh.readline()
    if first != "#!/usr/bin/env python3" or not second.startswith("# "):
        raise ValueError("not a program script")
    return json.loads(second[2:])["prog"]


def subst(obj, mapping):
    if isinstance(obj, str):
        for k, v in mapping.items():
            obj = obj.replace("{" + k + "}", str(v))
        return obj
    if isinstance(obj, list):
        return [subst(x, mapping) for x in obj]
    if isinstance(obj, dict):
        return {k: subst(v, mapping) for k, v in obj.items()}
    return obj


def run_actions(exe, actions):
    from stepup.core import api
    from stepup.core.enums import Need

    for action in actions:
        op = action[0]
        if op == "static":
            api.static(*action[1:])
        elif op == "glob":
            subs = action[2] if len(action) > 2 else {}
            ng = api.glob(action[1], **subs)
            if len(action) > 3:
                if len(ng._used_names) > 0:
                    for match in ng.matches():
                        mapping = dict(match.mapping)
                        files = match.files
                        mapping["path"] = str(files[0] if isinstance(files, list) else files)
                        run_actions(exe, subst(action[3], mapping))
                else:
                    for path in ng.files():
                        run_actions(exe, subst(action[3], {"path": str(path)}))
        elif op in ("step", "run", "plan"):
            kw = dict(action[2]) if len(action) > 2 else {}
            if "need" in kw:
                kw["need"] = Need({"OPTIONAL": 31, "DEFAULT": 32, "PLAN": 34}[kw["need"]])
            getattr(api, op)(action[1], **kw)
        elif op == "amend":
            api.amend(**action[1])
        elif op == "hold":
            with api.hold():
                run_actions(exe, action[1])
        elif op == "read":
            with open(action[1], "rb") as fh:
                fh.read()
        elif op == "tryread":
            try:
                with open(action[1], "rb") as fh:
                    fh.read()
            except OSError:
                pass
        elif op == "write":
            srcs = action[2] if len(action) > 2 else []
            tag = action[3] if len(action) > 3 else ""
            if tag.startswith("$"):
                tag = "env=" + str(os.environ.get(tag[1:], "<unset>"))
            elif tag == "@argv":
                tag = "argv=" + " ".join(sys.argv[1:])
            contents = []
            for p in srcs:
                with open(p, "rb") as fh:
                    contents.append(fh.read())
            with open(action[1], "wb") as fh:
                fh.write(derive(exe, tag, action[1], contents))
        elif op == "write_partial":
            with open(action[1], "wb") as fh:
                fh.write(b"PARTIAL")
        elif op == "stash":
            try:
                with open(action[1], "rb") as fh:
                    STASH.append(fh.read())
            except OSError:
                STASH.append(b"<absent>")
        elif op == "write_stash":
            with open(action[1], "wb") as fh:
                fh.write(derive(exe, "stash", action[1], STASH))
        elif op == "mkdir":
            os.makedirs(action[1], exist_ok=True)
        elif op == "exit":
            sys.exit(int(action[1]))
        elif op == "nop":
            pass
        elif op == "ifexists":
            chosen = action[2] if os.path.exists(action[1]) else (action[3] if len(action) > 3 else None)
            if chosen is not None:
                run_actions(exe, [chosen])
        else:
            raise ValueError(f"unknown action {op}")


def main(path):
    run_actions(path, parse_program(path))
