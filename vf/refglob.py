"""Reference matcher for named glob patterns: a backtracking matcher over path components with
back-references, written from the documentation of the pattern language (nglob module docstring
and the stdlib glob documentation), independently of convert_nglob_to_regex/_to_glob."""

import re

TOKEN = re.compile(r"\$\{\*([a-zA-Z0-9_]+)\}|\[(!?)([^\]]*)\]|\*|\?|.", re.S)


def tokenize(comp):
    """Tokens of one path component: ('lit', c) ('star',) ('any',) ('set', neg, chars) ('name', n)."""
    out = []
    for m in TOKEN.finditer(comp):
        s = m.group(0)
        if s.startswith("${*"):
            out.append(("name", m.group(1)))
        elif s.startswith("[") and s.endswith("]") and len(s) >= 3:
            out.append(("set", bool(m.group(2)), m.group(3)))
        elif s == "*":
            if not out or out[-1] != ("star",):
                out.append(("star",))
        elif s == "?":
            out.append(("any",))
        else:
            out.append(("lit", s))
    return out


def match_comp(tokens, text, subs, bind):
    """Yield bindings under which `tokens` match the whole of `text` (no '/' inside)."""
    if not tokens:
        if text == "":
            yield bind
        return
    tok, rest = tokens[0], tokens[1:]
    kind = tok[0]
    if kind == "lit":
        if text.startswith(tok[1]):
            yield from match_comp(rest, text[len(tok[1]):], subs, bind)
    elif kind == "any":
        if text:
            yield from match_comp(rest, text[1:], subs, bind)
    elif kind == "set":
        if text and ((text[0] in tok[2]) != tok[1]):
            yield from match_comp(rest, text[1:], subs, bind)
    elif kind == "star":
        for k in range(len(text) + 1):
            yield from match_comp(rest, text[k:], subs, bind)
    elif kind == "name":
        name = tok[1]
        if name in bind:
            v = bind[name]
            if text.startswith(v):
                yield from match_comp(rest, text[len(v):], subs, bind)
        else:
            sub = tokenize(subs.get(name, "*"))
            for k in range(len(text) + 1):
                cand = text[:k]
                if any(True for _ in match_comp(sub, cand, {}, {})):
                    yield from match_comp(rest, text[k:], subs, {**bind, name: cand})


def match_path(pattern, path, is_dir, subs=None):
    """Whether `pattern` accepts the existing `path` (no trailing slash; `is_dir` tells its kind)."""
    subs = subs or {}
    want_dir = pattern.endswith("/")
    pcomps = [c for c in pattern.split("/")]
    if want_dir:
        pcomps = pcomps[:-1]
        if not is_dir:
            return False
    comps = path.split("/")

    def rec(pi, ci, bind):
        if pi == len(pcomps):
            return ci == len(comps)
        pc = pcomps[pi]
        if pc == "**":
            # zero or more complete components; as the last component it needs a directory
            # when it stands for zero components
            for k in range(ci, len(comps) + 1):
                if pi + 1 == len(pcomps) and k == ci == len(comps) and not is_dir:
                    continue  # standing for zero components, the path itself must be a directory
                if rec(pi + 1, k, bind):
                    return True
            return False
        if ci >= len(comps):
            return False
        if pc == "":
            return False
        toks = tokenize(pc.replace("**", "*"))
        if all(t[0] == "star" or t[0] == "name" for t in toks) and comps[ci] == "":
            return False
        return any(rec(pi + 1, ci + 1, b) for b in match_comp(toks, comps[ci], subs, bind))

    if pcomps and pcomps[-1] == "**" and not want_dir:
        # 'd/**' also returns 'd/' itself (zero components): the path must then be a directory
        if rec_zero(pcomps, comps, is_dir, subs):
            return True
    return rec(0, 0, {})


def rec_zero(pcomps, comps, is_dir, subs):
    if not is_dir or len(pcomps) < 2:
        return False
    head = "/".join(pcomps[:-1])
    return match_path(head, "/".join(comps), True, subs)


def scan(pattern, tree, subs=None):
    """Expected recorded set for a tree given as {path: is_dir}; directories get a trailing slash."""
    out = set()
    for path, is_dir in tree.items():
        if match_path(pattern, path, is_dir, subs):
            out.add(path + "/" if is_dir else path)
    return out
