"""Reference models, written from the documentation of the enums and of the user manual,
independently of the SQL they are compared with. They work on `dirx.Obs` database dumps."""

OPTIONAL, DEFAULT, TARGET, PLAN = 31, 32, 33, 34
OUTPUT_STATES = ("PLANNED", "BUILT", "OUTDATED")


def attached_steps(obs):
    return {s for s, st in obs.db_steps.items() if not st["detached"]}


def consumers_of(obs, path):
    return {s for s, ins in obs.db_inputs.items() for p, _ in ins if p == path}


def implied_need(obs, targets=(), target_dirs=()):
    """Least fixed point of the need definition (Need docstrings, build targets documentation)."""
    steps = attached_steps(obs)
    targets = {str(t) for t in targets}
    target_dirs = [str(d) if str(d).endswith("/") else str(d) + "/" for d in target_dirs]
    val = {}
    for s in steps:
        v = obs.db_steps[s]["need"]
        regular = [p for p in obs.db_outputs.get(s, [])
                   if p in obs.db_files and not obs.db_files[p][2] and obs.db_files[p][0] != "VOLATILE"]
        if any(p in targets for p in regular):
            v = max(v, TARGET)
        elif obs.db_steps[s]["need"] == DEFAULT and any(p.startswith(d) for p in regular for d in target_dirs):
            v = max(v, TARGET)
        val[s] = v
    changed = True
    while changed:
        changed = False
        for s in steps:
            best = val[s]
            for p in obs.db_outputs.get(s, []):
                for t in consumers_of(obs, p):
                    if t in steps and val[t] > best:
                        best = val[t]
            if best != val[s]:
                val[s] = best
                changed = True
    return val


def threshold(targets=(), target_dirs=()):
    return DEFAULT if (targets or target_dirs) else OPTIONAL


def required_steps(obs, targets=(), target_dirs=()):
    th = threshold(targets, target_dirs)
    return {s for s, v in implied_need(obs, targets, target_dirs).items() if v > th}


def unavailable_inputs(obs, step):
    """Inputs that block `step` (Availability / FileState docstrings)."""
    out = []
    for path, dynamic in obs.db_inputs.get(step, []):
        rec = obs.db_files.get(path)
        if rec is None:
            continue
        state, _dg, detached = rec
        if state == "VOLATILE":
            out.append(path)
        elif dynamic:
            if not detached and state in ("PLANNED", "OUTDATED"):
                out.append(path)
        elif detached or state not in ("BUILT", "CONFIRMED"):
            out.append(path)
    return out
