"""Reference models, written from the documentation of the enums and of the user manual,
independently of the SQL they are compared with. They work on `dirx.Obs` database dumps."""

OPTIONAL, DEFAULT, TARGET, PLAN = 31, 32, 33, 34
OUTPUT_STATES = ("PLANNED", "BUILT", "OUTDATED")


def attached_steps(obs):
    return {s for s, st in obs.db_steps.items() if not st["detached"]}


def consumers_of(obs, path):
    return {s for s, ins in obs.db_inputs.items() for p, _ in ins if p == path}


def implied_need(obs, targets=(), target_dirs=()):
    """Least fixed point of the need definition (Need docstrings, build targets documentation)."""
    steps = attached_steps(obs)
    targets = {str(t) for t in targets}
    target_dirs = [str(d) if str(d).endswith("/") else str(d) + "/" for d in target_dirs]
    val = {}
    for s in steps:
        v = obs.db_steps[s]["need"]
        regular = [p for p in obs.db_outputs.get(s, [])
                   if p in obs.db_files and not obs.db_files[p][2] and obs.db_files[p][0] != "VOLATILE"]
        if any(p in targets for p in regular):
            v = max(v, TARGET)
        elif obs.db_steps[s]["need"] == DEFAULT and any(p.startswith(d) for p in regular for d in target_dirs):
            v = max(v, TARGET)
        val[s] = v
    changed = True
    while changed:
        changed = False
        for s in steps:
            best = val[s]
            for p in obs.db_outputs.get(s, []):
                for t in consumers_of(obs, p):
                    if t in steps and val[t] > best:
                        best = val[t]
            if best != val[s]:
                val[s] = best
                changed = True
    return val


def threshold(targets=(), target_dirs=()):
    return DEFAULT if (targets or target_dirs) else OPTIONAL


def required_steps(obs, targets=(), target_dirs=()):
    th = threshold(targets, target_dirs)
    return {s for s, v in implied_need(obs, targets, target_dirs).items() if v > th}


def unavailable_inputs(obs, step):
    """Inputs that block `step` (Availability / FileState docstrings)."""
    out = []
    for path, dynamic in obs.db_inputs.get(step, []):
        rec = obs.db_files.get(path)
        if rec is None:
            continue
        state, _dg, detached = rec
        if state == "VOLATILE":
            out.append(path)
        elif dynamic:
            if not detached and state in ("PLANNED", "OUTDATED"):
                out.append(path)
        elif detached or state not in ("BUILT", "CONFIRMED"):
            out.append(path)
    return out


# ------------------------------------------------------------------------------------------
# Well-formedness of the stored workflow (C09) and ownership (C08), from a raw connection
# ------------------------------------------------------------------------------------------

FS = {11: "UNDECLARED", 12: "UNCONFIRMED", 13: "MISSING", 14: "CONFIRMED", 15: "PLANNED",
      16: "BUILT", 17: "OUTDATED", 18: "VOLATILE"}
SS = {21: "PENDING", 22: "RUNNING", 23: "SUCCEEDED", 24: "FAILED", 25: "CHECKING"}


def invariants(con, ownership=True):
    """Return a list of (kind, message) for every violated invariant of the stored workflow."""
    import re

    out = []
    node = {i: (kind, label, creator, bool(det)) for i, kind, label, creator, det in
            con.execute("SELECT i, kind, label, creator, detached FROM node")}
    key = {i: f"{n[0]}:{n[1]}" for i, n in node.items()}
    # 1. detached iff unreachable from the root over creator links
    children = {}
    for i, n in node.items():
        if n[2] is not None and n[2] != i:
            children.setdefault(n[2], []).append(i)
    reach, todo = set(), [i for i, n in node.items() if n[0] == "root"]
    while todo:
        i = todo.pop()
        if i in reach:
            continue
        reach.add(i)
        todo.extend(children.get(i, []))
    for i, n in node.items():
        if n[3] == (i in reach):
            out.append(("detached-flag", f"{key[i]}: detached={n[3]} but reachable={i in reach}"))
    # 2. dependency kinds and acyclicity
    deps = con.execute("SELECT source, sink FROM dependency").fetchall()
    succ = {}
    for s, k in deps:
        kinds = (node[s][0], node[k][0])
        if kinds not in (("file", "step"), ("step", "file")):
            out.append(("dependency-kinds", f"{key[s]} -> {key[k]}"))
        succ.setdefault(s, []).append(k)
    color = {}

    def dfs(u):
        color[u] = 1
        for v in succ.get(u, []):
            if color.get(v) == 1:
                return True
            if v not in color and dfs(v):
                return True
        color[u] = 2
        return False

    import sys
    sys.setrecursionlimit(10000)
    for u in list(succ):
        if u not in color and dfs(u):
            out.append(("dependency-cycle", f"cycle through {key[u]}"))
            break
    files = {n: (state, h) for n, state, h in con.execute("SELECT node, state, hash FROM file")}
    steps = {r[0]: r for r in con.execute(
        "SELECT node, state, deferred, _holding, _has_hash, need, _implied_need FROM step")}
    hashes = {n for (n,) in con.execute("SELECT node FROM step_hash")}
    # 3. no creator or UNDECLARED implies detached
    for i, n in node.items():
        if n[0] != "root" and n[2] is None and not n[3]:
            out.append(("creatorless-attached", key[i]))
    for n, (state, h) in files.items():
        det = node[n][3]
        if state == 11 and not det:
            out.append(("undeclared-attached", key[n]))
        # 6. hash presence
        if state in (14, 16, 17) and h is None:
            out.append(("hash-missing", f"{key[n]} is {FS[state]} without hash"))
        if state in (13, 15, 18) and h is not None:
            out.append(("hash-present", f"{key[n]} is {FS[state]} with a hash"))
        # 4. output role iff exactly one incoming edge from its creator step (attached files)
        if not det:
            srcs = [s for s, k in deps if k == n]
            if state in (15, 16, 17, 18):
                if len(srcs) != 1 or srcs[0] != node[n][2] or node[srcs[0]][0] != "step":
                    out.append(("output-edge", f"{key[n]} ({FS[state]}) has sources {[key[s] for s in srcs]} "
                                f"and creator {key.get(node[n][2])}"))
            elif srcs:
                out.append(("static-with-source", f"{key[n]} ({FS[state]}) has sources {[key[s] for s in srcs]}"))
    for n, (_, state, deferred, holding, has_hash, need, implied) in steps.items():
        det = node[n][3]
        # 5. a SUCCEEDED step has only BUILT/VOLATILE outputs; for an attached step its attached
        # outputs, for a detached step (which can be recycled as SUCCEEDED, with its outputs)
        # the outputs that are still its own products
        if state == 23:
            for s, k in deps:
                if s != n or k not in files or files[k][0] in (16, 18):
                    continue
                if (not det and not node[k][3]) or (det and node[k][3] and node[k][2] == n):
                    out.append(("succeeded-with-unbuilt-output", f"{key[n]} -> {key[k]} ({FS[files[k][0]]})"
                                + (" [detached]" if det else "")))
        # 7. _has_hash iff step_hash row; FAILED has none
        if bool(has_hash) != (n in hashes):
            out.append(("has-hash-flag", f"{key[n]}: _has_hash={has_hash}, row={n in hashes}"))
        if state == 24 and n in hashes:
            out.append(("failed-with-hash", key[n]))
        # 8. deferred implies PENDING, holding implies RUNNING
        if deferred and state != 21:
            out.append(("deferred-not-pending", key[n]))
        if holding > 0 and state != 22:
            out.append(("holding-not-running", f"{key[n]} holds {holding} in state {SS[state]}"))
    # 9. step_need_count equals a recount
    try:
        counted = {(a, b): c for a, b, c in con.execute("SELECT implied_need, succeeded, n FROM step_need_count") if c}
        recount = {}
        for n, (_, state, *_rest, implied) in steps.items():
            if not node[n][3]:
                k2 = (implied, int(state == 23))
                recount[k2] = recount.get(k2, 0) + 1
        if counted != recount:
            out.append(("need-count", f"step_need_count {counted} != recount {recount}"))
    except Exception as exc:  # noqa: BLE001
        out.append(("need-count-unreadable", repr(exc)))
    if ownership:
        # C08: a static tree exclusively owns the paths beneath it
        trees = [(i, n[1]) for i, n in node.items() if n[0] == "st" and not n[3]]
        for n, (state, _) in files.items():
            if node[n][3]:
                continue
            label = node[n][1]
            for ti, tlabel in trees:
                if (label + "/").startswith(tlabel) and node[n][2] != ti:
                    out.append(("tree-ownership", f"{key[n]} ({FS[state]}) lies under {tlabel} but is created by "
                                f"{key.get(node[n][2])}"))
        # C08: a glob pattern never matches a path that a step builds
        products = [(node[n][1], state) for n, (state, _) in files.items()
                    if not node[n][3] and state in (15, 16, 17, 18)]
        for gn, pattern, regex, data in con.execute("SELECT node, pattern, regex, data FROM nglob"):
            if node[gn][3]:
                continue
            rx = re.compile(regex)
            for label, state in products:
                if rx.fullmatch(label):
                    out.append(("glob-matches-product", f"pattern {pattern} of {key[gn]} matches {label} ({FS[state]})"))
    return out


FILE_OK = {
    (None, 11), (None, 12), (None, 15), (None, 18),
    (13, 14), (14, 13), (12, 14), (12, 13),
    (16, 15), (17, 15), (17, 16), (15, 16), (16, 17), (15, 17),
}
STEP_OK = {
    (None, 21), (21, 22), (21, 25), (22, 23), (22, 24), (22, 21), (25, 23), (25, 21), (25, 24),
    (23, 21), (24, 21),
}


def bad_transitions(log):
    """Statement-level state changes (from the temp trigger log) outside the documented relations."""
    out = []
    for tbl, node, old, new in log:
        if old == new or new is None:
            continue
        if tbl == "file":
            if (old, new) in FILE_OK:
                continue
            # recycling through File.initialize_row may request any declarable state or UNDECLARED,
            # except that a former build product never becomes UNDECLARED: its output state is
            # carried over (documented in FILE_SCHEMA: an UNDECLARED row's hash never has an
            # output-role origin)
            if new in (11, 12, 15, 18) and not (old in (16, 17) and new == 11):
                continue
            out.append(("file-transition", f"{node}: {FS.get(old)} -> {FS.get(new)}"))
        elif tbl == "step":
            if (old, new) not in STEP_OK:
                out.append(("step-transition", f"{node}: {SS.get(old)} -> {SS.get(new)}"))
    return out
