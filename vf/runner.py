"""Run a check: fan jobs out over worker processes, aggregate, write evidence, report."""

import hashlib
import importlib
import json
import multiprocessing as mp
import os
import shutil
import sys
import time
import traceback

VERIF = os.path.dirname(os.path.dirname(os.path.abspath(__file__)))
EVIDENCE_DIR = os.path.join(VERIF, "evidence")
REPLAY_DIR = os.path.join(VERIF, "replays")
KNOWN = os.path.join(VERIF, "known_findings.json")
SCRATCH_BASE = "/dev/shm"


def h8(obj):
    """Short stable hash of a JSON-able object."""
    if not isinstance(obj, (bytes, str)):
        obj = json.dumps(obj, sort_keys=True, default=str)
    if isinstance(obj, str):
        obj = obj.encode()
    return hashlib.sha256(obj).hexdigest()[:16]


class Acc:
    """Accumulator returned by jobs and merged by the master."""

    def __init__(self):
        self.evaluations = 0
        self.transitions = 0
        self.states = set()
        self.nontrivial = set()
        self.outcomes = {}
        self.samples = []
        self.violations = []
        self._vkeys = set()
        self.caps = []
        self.counters = {}
        self.validated = 0
        self.extra = {}

    def count(self, name, n=1):
        self.counters[name] = self.counters.get(name, 0) + n

    def sample(self, s, limit=3):
        if len(self.samples) < limit:
            self.samples.append(s)

    def violation(self, key, what, replay=None):
        self.counters["violating_cases"] = self.counters.get("violating_cases", 0) + 1
        if key in self._vkeys:
            return
        self._vkeys.add(key)
        self.violations.append({"key": key, "what": what, "replay": replay})

    def merge(self, other):
        self.evaluations += other.evaluations
        self.transitions += other.transitions
        self.states |= other.states
        self.nontrivial |= other.nontrivial
        for k, v in other.outcomes.items():
            self.outcomes.setdefault(k, v)
        for s in other.samples:
            self.sample(s)
        for v in other.violations:
            if v["key"] not in self._vkeys:
                self._vkeys.add(v["key"])
                self.violations.append(v)
        self.caps.extend(other.caps)
        for k, v in other.counters.items():
            self.counters[k] = self.counters.get(k, 0) + v
        self.validated += other.validated
        for k, v in other.extra.items():
            if isinstance(v, list):
                self.extra.setdefault(k, []).extend(v)
            elif isinstance(v, set):
                self.extra.setdefault(k, set()).update(v)
            elif isinstance(v, dict):
                self.extra.setdefault(k, {}).update(v)
            else:
                self.extra[k] = v


_scratch_n = 0


def scratch_dir(tag="w"):
    global _scratch_n
    _scratch_n += 1
    path = os.path.join(SCRATCH_BASE, f"verif-{os.getpid()}-{tag}-{_scratch_n}")
    shutil.rmtree(path, ignore_errors=True)
    os.makedirs(path)
    return path


def cleanup_scratch():
    prefix = f"verif-{os.getpid()}-"
    for name in os.listdir(SCRATCH_BASE):
        if name.startswith(prefix):
            shutil.rmtree(os.path.join(SCRATCH_BASE, name), ignore_errors=True)


def _current_path(pid):
    return os.path.join(SCRATCH_BASE, f"verif-current-{pid}.json")


def _job_entry(args):
    modname, spec = args
    mod = importlib.import_module(modname)
    try:
        with open(_current_path(os.getpid()), "w") as fh:
            json.dump({"spec": spec, "since": time.time()}, fh, default=str)
    except OSError:
        pass
    t0 = time.time()
    try:
        acc = mod.run_job(spec)
        if os.environ.get("VERIF_PROFILE"):
            acc.extra.setdefault("job_times", []).append((round(time.time() - t0, 1), repr(spec)[:160]))
    except BaseException as exc:  # noqa: BLE001
        acc = Acc()
        acc.extra["job_errors"] = [
            {"spec": repr(spec)[:500], "error": "".join(traceback.format_exception(exc))[-3000:]}
        ]
    finally:
        cleanup_scratch()
    return acc


def load_known(prop):
    if not os.path.exists(KNOWN):
        return []
    with open(KNOWN) as fh:
        doc = json.load(fh)
    return [f for f in doc.get("findings", []) if f.get("property") == prop]


def run_check(prop, tier, seed, nproc=None):
    modname = f"vf.checks.{prop.lower()}"
    mod = importlib.import_module(modname)
    t0 = time.time()
    specs = mod.jobs(tier, seed)
    if seed:
        # the seed rotates the enumeration order, never the enumerated set
        k = seed % max(1, len(specs))
        specs = specs[k:] + specs[:k]
    nproc = nproc or int(os.environ.get("VERIF_NPROC", "0")) or min(16, os.cpu_count() or 1)
    total = Acc()
    if nproc == 1 or len(specs) <= 1:
        results = map(_job_entry, [(modname, s) for s in specs])
        for acc in results:
            total.merge(acc)
    else:
        # watchdog: the implementation under test may hang (a livelock inside a transaction, a
        # recursive query that never ends); a job that does not finish is a reported failure
        limit = float(os.environ.get("VERIF_JOB_TIMEOUT", "900" if tier == "quick" else "7200"))
        ctx = mp.get_context("fork")
        pool = ctx.Pool(min(nproc, len(specs)))
        try:
            pids = [w.pid for w in pool._pool]
            it = pool.imap_unordered(_job_entry, [(modname, s) for s in specs], chunksize=1)
            for _ in range(len(specs)):
                try:
                    acc = it.next(timeout=limit)
                except mp.TimeoutError:
                    stuck = []
                    for pid in pids:
                        try:
                            with open(_current_path(pid)) as fh:
                                doc = json.load(fh)
                            if time.time() - doc["since"] >= limit * 0.9:
                                stuck.append(doc["spec"])
                        except (OSError, ValueError):
                            pass
                    total.extra.setdefault("job_errors", []).append(
                        {"spec": repr(stuck)[:1500],
                         "error": f"no job finished within {limit:.0f} s: the implementation hangs "
                                  f"(livelock or non-terminating query) in the jobs listed"})
                    break
                total.merge(acc)
        finally:
            pool.terminate()
            pool.join()
            for name in os.listdir(SCRATCH_BASE):
                if name.startswith("verif-current-"):
                    try:
                        os.unlink(os.path.join(SCRATCH_BASE, name))
                    except OSError:
                        pass
                elif any(name.startswith(f"verif-{pid}-") for pid in pids):
                    shutil.rmtree(os.path.join(SCRATCH_BASE, name), ignore_errors=True)
    if os.environ.get("VERIF_PROFILE"):
        for t, sp in sorted(total.extra.pop("job_times", []), reverse=True)[:8]:
            print(f"  job {t:7.1f}s {sp}")
    if hasattr(mod, "finish"):
        mod.finish(total, tier, seed)
    wall = time.time() - t0

    # classify violations against the committed known findings
    known = load_known(prop)
    known_keys = {f["key"]: f for f in known}
    new_violations = []
    known_hit = {}
    for v in total.violations:
        if v["key"] in known_keys:
            known_hit.setdefault(v["key"], v)
        else:
            new_violations.append(v)
    job_errors = total.extra.get("job_errors", [])

    os.makedirs(EVIDENCE_DIR, exist_ok=True)
    level = getattr(mod, "LEVEL", "model_checking")
    cov = {
        "evaluations": total.evaluations,
        "distinct_nontrivial": len(total.nontrivial),
        "rule": getattr(mod, "RULE", ""),
        "samples": total.samples[:3] or ["(none)"],
        "states": len(total.states),
        "transitions": total.transitions,
        # every execution counted in `evaluations` of these engines is a run of the real
        # implementation (there is no separate model): they are all validated traces
        "traces_validated_against_impl": total.validated or (total.evaluations if level != "exploration" else 0),
        "exhaustive": not total.caps,
        "caps_hit": total.caps[:10],
        "distinct_outcomes": len(total.outcomes),
        "counters": total.counters,
        "jobs": len(specs),
    }
    if hasattr(mod, "coverage_extra"):
        cov.update(mod.coverage_extra(total, tier))
    evidence = {
        "property_id": prop,
        "tier": tier,
        "seed": int(seed),
        "level": level,
        "coverage": cov,
        "assumptions": list(getattr(mod, "ASSUMPTIONS", [])),
        "wall_s": round(wall, 2),
        "violations": len(new_violations) + len(job_errors),
        "known_findings_reproduced": sorted(known_hit),
    }
    with open(os.path.join(EVIDENCE_DIR, f"{prop}.json"), "w") as fh:
        json.dump(evidence, fh, indent=1, default=str)

    for key, v in sorted(known_hit.items()):
        print(f"KNOWN-FINDING: property={prop} {known_keys[key].get('what', key)}")
    rc = 0
    os.makedirs(REPLAY_DIR, exist_ok=True)
    for name in os.listdir(REPLAY_DIR):
        # replay files of earlier runs of this property are stale now
        if name.startswith(prop + "-"):
            os.unlink(os.path.join(REPLAY_DIR, name))
    seen = set()
    for v in new_violations:
        if v["key"] in seen:
            continue
        seen.add(v["key"])
        path = os.path.join(REPLAY_DIR, f"{prop}-{h8(v['key'])}.json")
        with open(path, "w") as fh:
            json.dump({"property": prop, **v}, fh, indent=1, default=str)
        print(f"VIOLATION property={prop} replay={path}")
        print(f"  what: {str(v['what'])[:600]}")
        rc = 1
        if len(seen) >= 20:
            break
    for err in job_errors[:5]:
        path = os.path.join(REPLAY_DIR, f"{prop}-joberror-{h8(err)}.json")
        with open(path, "w") as fh:
            json.dump(err, fh, indent=1)
        print(f"VIOLATION property={prop} replay={path}")
        print("  harness job raised:", err["error"][-800:])
        rc = 1
    print(
        f"{prop} {tier}: evaluations={total.evaluations} states={len(total.states)} "
        f"transitions={total.transitions} nontrivial={len(total.nontrivial)} "
        f"outcomes={len(total.outcomes)} violations={len(new_violations) + len(job_errors)} "
        f"known={len(known_hit)} caps={len(total.caps)} wall={wall:.1f}s"
    )
    return rc


def main(argv=None):
    argv = argv or sys.argv[1:]
    if not argv:
        print("usage: check <ID> [--tier quick|thorough] | check replay <file>")
        return 2
    if argv[0] == "replay":
        with open(argv[1]) as fh:
            doc = json.load(fh)
        mod = importlib.import_module(f"vf.checks.{doc['property'].lower()}")
        return mod.replay(doc)
    prop = argv[0]
    tier = os.environ.get("VERIF_TIER", "quick")
    if "--tier" in argv:
        tier = argv[argv.index("--tier") + 1]
    seed = int(os.environ.get("VERIF_SEED", "0") or 0)
    return run_check(prop, tier, seed)


if __name__ == "__main__":
    sys.exit(main())
