"""A hand-stepped asyncio event loop with virtual time.

The loop never blocks and never looks at a selector: the harness pops ready handles by hand.
Everything that happens between two quiescent configurations (empty ready queue) is a
deterministic function of the configuration and of the event the harness injects.
"""

import asyncio
import heapq
from asyncio import base_events, events


class Livelock(Exception):
    """The ready queue did not drain within the step budget."""


class VLoop(base_events.BaseEventLoop):
    def __init__(self):
        super().__init__()
        self._vtime = 0.0
        self.steps = 0
        self.unhandled = []
        self.set_exception_handler(self._on_unhandled)

    # -- overrides -------------------------------------------------------------------------
    def time(self):
        return self._vtime

    def _process_events(self, event_list):  # pragma: no cover - never called
        pass

    def _write_to_self(self):
        pass

    def run_in_executor(self, executor, func, *args):  # never wanted in the closed system
        raise RuntimeError("run_in_executor is outside the closed system")

    def _on_unhandled(self, loop, context):
        self.unhandled.append(context)

    # -- stepping ---------------------------------------------------------------------------
    def install(self):
        events._set_running_loop(self)
        asyncio.set_event_loop(self)

    def uninstall(self):
        events._set_running_loop(None)
        asyncio.set_event_loop(None)

    def run_ready(self, budget=200000):
        """Run ready callbacks (FIFO, like asyncio) until the queue is empty."""
        ready = self._ready
        n = 0
        while ready:
            handle = ready.popleft()
            if handle._cancelled:
                continue
            handle._run()
            n += 1
            if n > budget:
                raise Livelock(f"ready queue did not drain in {budget} callbacks")
        self.steps += n
        return n

    def has_timers(self):
        return any(not h._cancelled for h in self._scheduled)

    def fire_next_timer(self):
        """Advance virtual time to the earliest live timer and make it ready."""
        while self._scheduled:
            handle = heapq.heappop(self._scheduled)
            handle._scheduled = False
            if handle._cancelled:
                continue
            if handle._when > self._vtime:
                self._vtime = handle._when
            self._ready.append(handle)
            return True
        return False


def advance(loop, seconds):
    """Let `seconds` of virtual time pass: fire every timer that falls due, in order."""
    deadline = loop._vtime + seconds
    while loop._scheduled:
        live = [h for h in loop._scheduled if not h._cancelled]
        if not live or min(h._when for h in live) > deadline:
            break
        loop.fire_next_timer()
        loop.run_ready()
    loop._vtime = max(loop._vtime, deadline)
